package main

// C16: boolean-valued membership / equality helpers of the pairing gadgets against the native library:
// sw_bls12381 Pairing.IsOnG1 / IsOnG2 (used by the EVM BLS pairing precompile helpers) and the GT equality test of the
// two-chain sw_bls12377 pairing — each must return 1 exactly when the native predicate holds (F35, F36).

import (
	"fmt"
	"math/big"

	"github.com/consensys/gnark-crypto/ecc"
	bls12377 "github.com/consensys/gnark-crypto/ecc/bls12-377"
	fr377 "github.com/consensys/gnark-crypto/ecc/bls12-377/fr"
	bls12381 "github.com/consensys/gnark-crypto/ecc/bls12-381"
	"github.com/consensys/gnark/frontend"
	"github.com/consensys/gnark/std/algebra/algopts"
	"github.com/consensys/gnark/std/algebra/emulated/sw_bls12381"
	"github.com/consensys/gnark/std/algebra/native/sw_bls12377"
	"github.com/consensys/gnark/test"
)

type isOnG1Circuit struct {
	P sw_bls12381.G1Affine
	R frontend.Variable `gnark:",public"`
}

func (c *isOnG1Circuit) Define(api frontend.API) error {
	pr, err := sw_bls12381.NewPairing(api)
	if err != nil {
		return err
	}
	api.AssertIsEqual(pr.IsOnG1(&c.P), c.R)
	return nil
}

type isOnG2Circuit struct {
	Q sw_bls12381.G2Affine
	R frontend.Variable `gnark:",public"`
}

func (c *isOnG2Circuit) Define(api frontend.API) error {
	pr, err := sw_bls12381.NewPairing(api)
	if err != nil {
		return err
	}
	api.AssertIsEqual(pr.IsOnG2(&c.Q), c.R)
	return nil
}

type gtEqCircuit struct {
	X, Y sw_bls12377.GT
	R    frontend.Variable `gnark:",public"`
}

func (c *gtEqCircuit) Define(api frontend.API) error {
	pr := sw_bls12377.NewPairing(api)
	api.AssertIsEqual(pr.IsEqual(&c.X, &c.Y), c.R)
	return nil
}

func c16Misc(rep *Report, rng *RNG) {
	decide := func(name string, want int, run func(claim int) error) {
		for _, claim := range []int{want, 1 - want} {
			var err error
			pm := catchPanic(func() { err = run(claim) })
			rep.Eval(fmt.Sprintf("misc|%s|%d", name, claim), true)
			rep.Count("pairing-helpers")
			desc := c16Desc{Curve: "-", Op: name, Class: fmt.Sprintf("native says %d, claimed %d", want, claim)}
			switch {
			case pm != "":
				rep.Fail("c16:panic:pairing-helper", pm, desc)
			case claim == want && err != nil:
				rep.Fail("c16:differs-from-native:pairing-helper:"+name, fmt.Sprintf("%s: the native predicate is %d but the gadget does not return it: %s", name, want, shortErr(err)), desc)
			case claim != want && err == nil:
				rep.Fail("c16:differs-from-native:pairing-helper:"+name, fmt.Sprintf("%s: the native predicate is %d but the gadget returns %d", name, want, claim), desc)
			}
		}
	}
	// ---- BLS12-381 membership (emulated, outer field BN254)
	{
		_, _, g1, g2 := bls12381.Generators()
		var p bls12381.G1Affine
		p.ScalarMultiplication(&g1, new(big.Int).Add(rng.Big(big.NewInt(1<<40)), big.NewInt(2)))
		decide("sw_bls12381.IsOnG1(subgroup point)", 1, func(claim int) error {
			return test.IsSolved(&isOnG1Circuit{}, &isOnG1Circuit{P: sw_bls12381.NewG1Affine(p), R: claim}, ecc.BN254.ScalarField())
		})
		if T := torsionG1_bls12381(); T != nil {
			var j, jt bls12381.G1Jac
			j.FromAffine(&p)
			jt.FromAffine(T)
			j.AddAssign(&jt)
			var out bls12381.G1Affine
			out.FromJacobian(&j)
			decide("sw_bls12381.IsOnG1(curve point outside the subgroup)", 0, func(claim int) error {
				return test.IsSolved(&isOnG1Circuit{}, &isOnG1Circuit{P: sw_bls12381.NewG1Affine(out), R: claim}, ecc.BN254.ScalarField())
			})
		}
		var q bls12381.G2Affine
		q.ScalarMultiplication(&g2, big.NewInt(98765))
		decide("sw_bls12381.IsOnG2(subgroup point)", 1, func(claim int) error {
			return test.IsSolved(&isOnG2Circuit{}, &isOnG2Circuit{Q: sw_bls12381.NewG2Affine(q), R: claim}, ecc.BN254.ScalarField())
		})
		if T2 := torsionG2_bls12381(); T2 != nil {
			var j, jt bls12381.G2Jac
			j.FromAffine(&q)
			jt.FromAffine(T2)
			j.AddAssign(&jt)
			var out bls12381.G2Affine
			out.FromJacobian(&j)
			decide("sw_bls12381.IsOnG2(twist point outside the subgroup)", 0, func(claim int) error {
				return test.IsSolved(&isOnG2Circuit{}, &isOnG2Circuit{Q: sw_bls12381.NewG2Affine(out), R: claim}, ecc.BN254.ScalarField())
			})
		}
	}
	// ---- GT equality of the two-chain pairing (BLS12-377 in BW6-761): equal, and differing in exactly one of the 12 coefficients
	{
		_, _, g1, g2 := bls12377.Generators()
		x, err := bls12377.Pair([]bls12377.G1Affine{g1}, []bls12377.G2Affine{g2})
		if err != nil {
			rep.Fail("harness:pair", err.Error(), nil)
			return
		}
		run := func(y bls12377.GT, claim int) error {
			return test.IsSolved(&gtEqCircuit{}, &gtEqCircuit{X: sw_bls12377.NewGTEl(x), Y: sw_bls12377.NewGTEl(y), R: claim}, ecc.BW6_761.ScalarField())
		}
		decide("sw_bls12377.GT.IsEqual(x, x)", 1, func(claim int) error { return run(x, claim) })
		for k := 0; k < 12; k++ {
			y := x
			cs := []*bls12377.GT{&y}
			_ = cs
			coef := []interface{ SetOne() }{}
			_ = coef
			switch k {
			case 0:
				y.C0.B0.A0.Double(&y.C0.B0.A0)
			case 1:
				y.C0.B0.A1.Double(&y.C0.B0.A1)
			case 2:
				y.C0.B1.A0.Double(&y.C0.B1.A0)
			case 3:
				y.C0.B1.A1.Double(&y.C0.B1.A1)
			case 4:
				y.C0.B2.A0.Double(&y.C0.B2.A0)
			case 5:
				y.C0.B2.A1.Double(&y.C0.B2.A1)
			case 6:
				y.C1.B0.A0.Double(&y.C1.B0.A0)
			case 7:
				y.C1.B0.A1.Double(&y.C1.B0.A1)
			case 8:
				y.C1.B1.A0.Double(&y.C1.B1.A0)
			case 9:
				y.C1.B1.A1.Double(&y.C1.B1.A1)
			case 10:
				y.C1.B2.A0.Double(&y.C1.B2.A0)
			case 11:
				y.C1.B2.A1.Double(&y.C1.B2.A1)
			}
			if y.Equal(&x) {
				continue
			}
			k := k
			decide(fmt.Sprintf("sw_bls12377.GT.IsEqual(x, x with coefficient %d changed)", k), 0, func(claim int) error { return run(y, claim) })
		}
	}
}

// ---- two-chain native curve (BLS12-377 in BW6-761): MultiScalarMul with complete arithmetic, points at infinity in every position
type msm377Circuit struct {
	P []sw_bls12377.G1Affine
	S []sw_bls12377.Scalar
	R sw_bls12377.G1Affine `gnark:",public"`
}

func (c *msm377Circuit) Define(api frontend.API) error {
	cr, err := sw_bls12377.NewCurve(api)
	if err != nil {
		return err
	}
	ps := make([]*sw_bls12377.G1Affine, len(c.P))
	ss := make([]*sw_bls12377.Scalar, len(c.S))
	for i := range c.P {
		ps[i], ss[i] = &c.P[i], &c.S[i]
	}
	res, err := cr.MultiScalarMul(ps, ss, algopts.WithCompleteArithmetic())
	if err != nil {
		return err
	}
	cr.AssertIsEqual(res, &c.R)
	return nil
}

func c16MSM377(rep *Report, rng *RNG) {
	_, _, g1, _ := bls12377.Generators()
	for n := 2; n <= 4; n++ {
		for inf := -1; inf < n; inf++ { // index of the point at infinity (-1: none)
			pts := make([]bls12377.G1Affine, n)
			scs := make([]fr377.Element, n)
			var want bls12377.G1Jac
			for i := range pts {
				if i != inf {
					pts[i].ScalarMultiplication(&g1, new(big.Int).Add(rng.Big(big.NewInt(1<<50)), big.NewInt(3)))
				}
				scs[i].SetBigInt(rng.Big(fr377.Modulus()))
				var t bls12377.G1Jac
				var bi big.Int
				t.FromAffine(&pts[i])
				t.ScalarMultiplication(&t, scs[i].BigInt(&bi))
				want.AddAssign(&t)
			}
			var wa bls12377.G1Affine
			wa.FromJacobian(&want)
			tmpl := &msm377Circuit{P: make([]sw_bls12377.G1Affine, n), S: make([]sw_bls12377.Scalar, n)}
			asg := &msm377Circuit{P: make([]sw_bls12377.G1Affine, n), S: make([]sw_bls12377.Scalar, n), R: sw_bls12377.NewG1Affine(wa)}
			for i := range pts {
				asg.P[i] = sw_bls12377.NewG1Affine(pts[i])
				asg.S[i] = sw_bls12377.NewScalar(scs[i])
			}
			var err error
			pm := catchPanic(func() { err = test.IsSolved(tmpl, asg, ecc.BW6_761.ScalarField()) })
			name := fmt.Sprintf("sw_bls12377.MultiScalarMul(complete, %d points, infinity at %d)", n, inf)
			rep.Eval("msm377|"+name, true)
			rep.Count("msm377")
			if pm != "" || err != nil {
				rep.Fail("c16:differs-from-native:msm377", name+" does not return the native multi-scalar multiplication: "+pm+shortErr(err), c16Desc{Curve: "bls12-377 (native, in BW6-761)", Op: "MultiScalarMul", Class: name})
			}
		}
	}
}

// ---- emulated BLS12-381: a G2 point selected by MuxG2 among points carrying precomputed lines must pair like the selected point
type muxG2Circuit struct {
	P   sw_bls12381.G1Affine
	Q   [3]sw_bls12381.G2Affine
	Sel frontend.Variable
	R   sw_bls12381.GTEl `gnark:",public"`
}

func (c *muxG2Circuit) Define(api frontend.API) error {
	pr, err := sw_bls12381.NewPairing(api)
	if err != nil {
		return err
	}
	q := pr.MuxG2(c.Sel, &c.Q[0], &c.Q[1], &c.Q[2])
	res, err := pr.Pair([]*sw_bls12381.G1Affine{&c.P}, []*sw_bls12381.G2Affine{q})
	if err != nil {
		return err
	}
	pr.AssertIsEqual(res, &c.R)
	return nil
}

func c16MuxG2(rep *Report, rng *RNG, thorough bool) {
	_, _, g1, g2 := bls12381.Generators()
	var p bls12381.G1Affine
	p.ScalarMultiplication(&g1, big.NewInt(4242))
	var qs [3]bls12381.G2Affine
	for i := range qs {
		qs[i].ScalarMultiplication(&g2, big.NewInt(int64(1000+7*i)))
	}
	sels := []int{2}
	if thorough {
		sels = []int{0, 1, 2}
	}
	for _, sel := range sels {
		want, err := bls12381.Pair([]bls12381.G1Affine{p}, []bls12381.G2Affine{qs[sel]})
		if err != nil {
			rep.Fail("harness:pair381", err.Error(), nil)
			return
		}
		tmpl := &muxG2Circuit{}
		asg := &muxG2Circuit{P: sw_bls12381.NewG1Affine(p), Sel: sel, R: sw_bls12381.NewGTEl(want)}
		for i := range qs {
			tmpl.Q[i] = sw_bls12381.NewG2AffineFixedPlaceholder()
			asg.Q[i] = sw_bls12381.NewG2AffineFixed(qs[i])
		}
		var serr error
		pm := catchPanic(func() { serr = test.IsSolved(tmpl, asg, ecc.BN254.ScalarField()) })
		name := fmt.Sprintf("sw_bls12381.Pair(P, MuxG2(sel=%d, three points with precomputed lines))", sel)
		rep.Eval("muxg2|"+name, true)
		rep.Count("muxg2-fixed-lines")
		if pm != "" || serr != nil {
			rep.Fail("c16:differs-from-native:muxg2-lines", name+" differs from the native pairing with the selected point: "+pm+shortErr(serr), c16Desc{Curve: "bls12-381 (emulated)", Op: "MuxG2+Pair", Class: name})
		}
	}
}
