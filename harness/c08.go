package main

// C08: verifiers and decoders of untrusted data return errors, never crash.

import (
	"bufio"
	"bytes"
	"fmt"
	"io"
	"math/big"
	"os"
	"os/exec"
	"reflect"
	"strings"

	"github.com/consensys/gnark-crypto/ecc"
	"github.com/consensys/gnark/backend/groth16"
	"github.com/consensys/gnark/backend/plonk"
	"github.com/consensys/gnark/backend/witness"
	"github.com/consensys/gnark/constraint"
	"github.com/consensys/gnark/frontend"
	"github.com/consensys/gnark/frontend/cs/r1cs"
	"github.com/consensys/gnark/frontend/cs/scs"
	"github.com/consensys/gnark/test/unsafekzg"
)

func init() { commands["c08"] = runC08 }

// circuits with 0, 1 and 2 commitments (committing secret and public variables)
type cm0 struct {
	X frontend.Variable
	Y frontend.Variable `gnark:",public"`
}

func (c *cm0) Define(api frontend.API) error { api.AssertIsEqual(api.Mul(c.X, c.X), c.Y); return nil }

type cm1 struct {
	X, W frontend.Variable
	Y    frontend.Variable `gnark:",public"`
}

func (c *cm1) Define(api frontend.API) error {
	api.AssertIsEqual(api.Mul(c.X, c.X), c.Y)
	cm, err := api.(frontend.Committer).Commit(c.X, c.W, c.Y)
	if err != nil {
		return err
	}
	api.AssertIsDifferent(cm, c.W)
	return nil
}

type cm2 struct {
	X, W frontend.Variable
	Y, Z frontend.Variable `gnark:",public"`
}

func (c *cm2) Define(api frontend.API) error {
	api.AssertIsEqual(api.Mul(c.X, c.X), c.Y)
	cm, err := api.(frontend.Committer).Commit(c.X, c.Z)
	if err != nil {
		return err
	}
	cm2, err := api.(frontend.Committer).Commit(c.W, cm, c.Y)
	if err != nil {
		return err
	}
	api.AssertIsDifferent(cm, cm2)
	api.AssertIsEqual(api.Add(c.Z, 0), c.Z)
	return nil
}

func classOf(f func() error) (int, string) {
	var err error
	if p := catchPanic(func() { err = f() }); p != "" {
		return 2, p
	}
	if err != nil {
		return 1, err.Error()
	}
	return 0, ""
}

var className = []string{"accept", "error", "panic", "crash"}

// deep copy through the binary encoding (so that edits do not alias the genuine proof)
func cloneVia(obj interface{}, fresh interface{}) interface{} {
	var b bytes.Buffer
	obj.(io.WriterTo).WriteTo(&b)
	fresh.(io.ReaderFrom).ReadFrom(bytes.NewReader(b.Bytes()))
	return fresh
}

// resize a slice field of a struct (by reflection): n elements, copies of existing ones (cyclic) or zero values
func resizeField(obj interface{}, path []string, n int, rotate bool) {
	v := reflect.ValueOf(obj).Elem()
	for _, p := range path {
		v = v.FieldByName(p)
	}
	old := v
	nv := reflect.MakeSlice(v.Type(), n, n)
	for i := 0; i < n; i++ {
		if old.Len() > 0 {
			k := i % old.Len()
			if rotate {
				k = (i + 1) % old.Len()
			}
			nv.Index(i).Set(old.Index(k))
		}
	}
	v.Set(nv)
}

func fieldLen(obj interface{}, path ...string) int {
	v := reflect.ValueOf(obj).Elem()
	for _, p := range path {
		v = v.FieldByName(p)
	}
	return v.Len()
}

func resizeWitness(w witness.Witness, q *big.Int, n int) witness.Witness {
	vec := vecToBig(w.Vector(), q)
	ch := make(chan any, n)
	for i := 0; i < n; i++ {
		if len(vec) > 0 {
			ch <- new(big.Int).Set(vec[i%len(vec)])
		} else {
			ch <- big.NewInt(1)
		}
	}
	close(ch)
	nw, _ := witness.New(q)
	nw.Fill(n, 0, ch)
	return nw
}

type c08Desc struct {
	Backend string `json:"backend"`
	Curve   string `json:"curve"`
	Circuit string `json:"circuit"`
	Edit    string `json:"edit"`
	Class   string `json:"observed"`
	Msg     string `json:"msg,omitempty"`
}

func runC08(args []string) int {
	o := parseOpts(args)
	rng := NewRNG(o.Seed)
	rep := NewReport("C08")
	rep.Rule = "genuine Groth16 and PLONK proofs of circuits with 0, 1 and 2 commitments are edited structurally (every length 0..len+2 of every variable-length part, rotations, resized public witness) and at the byte level (every truncation length, byte flips at every structural offset and random offsets, extensions, random strings) and given to ReadFrom / UnmarshalBinary / Verify under recover; observed class accept / error / panic; non-trivial = an edit that changes a length or a byte; distinct = distinct (backend, curve, circuit, edit)"
	curves := []ecc.ID{ecc.BN254, ecc.BLS12_381}
	if o.AllCurves() {
		curves = []ecc.ID{ecc.BN254, ecc.BLS12_377, ecc.BLS12_381, ecc.BW6_761, ecc.BLS24_315, ecc.BLS24_317, ecc.BW6_633}
	}
	var g16cases, plonkcases, wbcases []string
	report := func(desc c08Desc, cls int, msg string, mismatchMustErr bool) {
		desc.Class, desc.Msg = className[cls], msg
		if len(desc.Msg) > 120 {
			desc.Msg = desc.Msg[:120]
		}
		rep.Eval(fmt.Sprintf("%s|%s|%s|%s", desc.Backend, desc.Curve, desc.Circuit, desc.Edit), true)
		rep.Count(desc.Backend + ":" + className[cls])
		rep.Sample(desc)
		if cls == 2 {
			rep.Fail(fmt.Sprintf("c08:panic:%s:%s", desc.Backend, strings.SplitN(desc.Edit, "=", 2)[0]), "untrusted input makes the verifier/decoder panic: "+msg, desc)
		} else if cls == 3 {
			kind := "crash"
			if strings.Contains(msg, "out of memory") || strings.Contains(msg, "cannot allocate") {
				kind = "oom"
			}
			rep.Fail(fmt.Sprintf("c08:%s:%s:%s", kind, desc.Backend, strings.SplitN(strings.SplitN(desc.Edit, "=", 2)[0], "@", 2)[0]), "untrusted bytes crash the decoding process (not recoverable): "+msg, desc)
		} else if mismatchMustErr && cls == 0 {
			rep.Fail(fmt.Sprintf("c08:count-mismatch-accepted:%s:%s", desc.Backend, strings.SplitN(desc.Edit, "=", 2)[0]), "a proof/witness with a wrong number of elements was accepted", desc)
		}
	}
	for _, id := range curves {
		q := id.ScalarField()
		circuits := []struct {
			name      string
			c, a      frontend.Circuit
			committed [][]int // public indices (1-based) committed by each commitment, as the vk prescribes
		}{{"cm0", &cm0{}, &cm0{X: 3, Y: 9}, nil}, {"cm1", &cm1{}, &cm1{X: 3, W: 5, Y: 9}, nil}, {"cm2", &cm2{}, &cm2{X: 3, W: 5, Y: 9, Z: 4}, nil}}
		for _, ci := range circuits {
			full, _ := frontend.NewWitness(ci.a, q)
			pub, _ := full.Public()
			npub := len(vecToBig(pub.Vector(), q))
			// ------------------------------------------------ groth16
			func() {
				ccs, err := frontend.Compile(q, r1cs.NewBuilder[constraint.U64], ci.c)
				if err != nil {
					rep.Fail("harness:compile", err.Error(), ci.name)
					return
				}
				pk, vk, err := groth16.Setup(ccs)
				if err != nil {
					rep.Fail("harness:setup", err.Error(), ci.name)
					return
				}
				proof, err := groth16.Prove(ccs, pk, full)
				if err != nil {
					rep.Fail("harness:prove", err.Error(), ci.name)
					return
				}
				ncm := fieldLen(proof, "Commitments")
				nbK := fieldLen(vk, "G1", "K")
				// committed public indices from the key
				cmv := reflect.ValueOf(vk).Elem().FieldByName("PublicAndCommitmentCommitted")
				var cmLists []string
				for i := 0; i < cmv.Len(); i++ {
					var xs []int
					for j := 0; j < cmv.Index(i).Len(); j++ {
						xs = append(xs, int(cmv.Index(i).Index(j).Int()))
					}
					cmLists = append(cmLists, intlist(xs))
				}
				nck := fieldLen(vk, "CommitmentKeys")
				base := c08Desc{Backend: "groth16", Curve: id.String(), Circuit: ci.name}
				// structural edits: commitments
				for n := 0; n <= ncm+2; n++ {
					for _, rot := range []bool{false, true} {
						if rot && (n != ncm || ncm < 2) {
							continue
						}
						p2 := cloneVia(proof, groth16.NewProof(id)).(groth16.Proof)
						resizeField(p2, []string{"Commitments"}, n, rot)
						d := base
						d.Edit = fmt.Sprintf("commitments=%d(rot=%v) of %d", n, rot, ncm)
						cls, msg := classOf(func() error { return groth16.Verify(p2, vk, pub) })
						report(d, cls, msg, n != ncm)
						g16cases = append(g16cases, fmt.Sprintf("(%d, %s, %d, %d, %d, %d)", nbK, coqlist(cmLists), nck, npub, n, cls))
					}
				}
				// witness length
				for n := 0; n <= npub+2; n++ {
					w2 := resizeWitness(pub, q, n)
					d := base
					d.Edit = fmt.Sprintf("witness=%d of %d", n, npub)
					cls, msg := classOf(func() error { return groth16.Verify(proof, vk, w2) })
					report(d, cls, msg, n != npub)
					g16cases = append(g16cases, fmt.Sprintf("(%d, %s, %d, %d, %d, %d)", nbK, coqlist(cmLists), nck, n, ncm, cls))
				}
				// byte-level edits of the proof
				var pb bytes.Buffer
				proof.WriteTo(&pb)
				var names []string
				var datas [][]byte
				byteEdits(rng, pb.Bytes(), o.Thorough(), func(name string, data []byte) {
					names = append(names, name)
					datas = append(datas, data)
				})
				for i, r := range runDecodeChild("groth16", id, vk, pub, nil, "proof", datas) {
					d := base
					d.Edit = "proof-bytes:" + names[i] + r.suffix
					report(d, r.cls, r.msg, false)
				}
			}()
			// ------------------------------------------------ plonk
			func() {
				ccs, err := frontend.Compile(q, scs.NewBuilder[constraint.U64], ci.c)
				if err != nil {
					rep.Fail("harness:compile", err.Error(), ci.name)
					return
				}
				srs, srsL, err := unsafekzg.NewSRS(ccs)
				if err != nil {
					rep.Fail("harness:srs", err.Error(), ci.name)
					return
				}
				pk, vk, err := plonk.Setup(ccs, srs, srsL)
				if err != nil {
					rep.Fail("harness:setup", err.Error(), ci.name)
					return
				}
				proof, err := plonk.Prove(ccs, pk, full)
				if err != nil {
					rep.Fail("harness:prove", err.Error(), ci.name)
					return
				}
				nq := fieldLen(vk, "Qcp")
				nbsb := fieldLen(proof, "Bsb22Commitments")
				ncl := fieldLen(proof, "BatchedProof", "ClaimedValues")
				base := c08Desc{Backend: "plonk", Curve: id.String(), Circuit: ci.name}
				for n := 0; n <= ncl+2; n++ {
					p2 := cloneVia(proof, plonk.NewProof(id)).(plonk.Proof)
					resizeField(p2, []string{"BatchedProof", "ClaimedValues"}, n, false)
					d := base
					d.Edit = fmt.Sprintf("claimed=%d of %d", n, ncl)
					cls, msg := classOf(func() error { return plonk.Verify(p2, vk, pub) })
					report(d, cls, msg, n != ncl)
					plonkcases = append(plonkcases, fmt.Sprintf("(%d, %d, %d, %d, %d, %d)", nq, npub, nbsb, npub, n, cls))
				}
				for n := 0; n <= nbsb+2; n++ {
					p2 := cloneVia(proof, plonk.NewProof(id)).(plonk.Proof)
					resizeField(p2, []string{"Bsb22Commitments"}, n, false)
					d := base
					d.Edit = fmt.Sprintf("bsb22=%d of %d", n, nbsb)
					cls, msg := classOf(func() error { return plonk.Verify(p2, vk, pub) })
					report(d, cls, msg, n != nbsb)
					plonkcases = append(plonkcases, fmt.Sprintf("(%d, %d, %d, %d, %d, %d)", nq, npub, n, npub, ncl, cls))
				}
				for n := 0; n <= npub+2; n++ {
					w2 := resizeWitness(pub, q, n)
					d := base
					d.Edit = fmt.Sprintf("witness=%d of %d", n, npub)
					cls, msg := classOf(func() error { return plonk.Verify(proof, vk, w2) })
					report(d, cls, msg, n != npub)
					plonkcases = append(plonkcases, fmt.Sprintf("(%d, %d, %d, %d, %d, %d)", nq, npub, nbsb, n, ncl, cls))
				}
				var pb bytes.Buffer
				proof.WriteTo(&pb)
				var names []string
				var datas [][]byte
				byteEdits(rng, pb.Bytes(), o.Thorough(), func(name string, data []byte) {
					names = append(names, name)
					datas = append(datas, data)
				})
				for i, r := range runDecodeChild("plonk", id, vk, pub, nil, "proof", datas) {
					d := base
					d.Edit = "proof-bytes:" + names[i] + r.suffix
					report(d, r.cls, r.msg, false)
				}
				// witness bytes: decode, Public(), Verify
				wb, _ := pub.MarshalBinary()
				width := (q.BitLen() + 63) / 64 * 8
				names, datas = nil, nil
				byteEdits(rng, wb, o.Thorough(), func(name string, data []byte) {
					names = append(names, name)
					datas = append(datas, data)
				})
				for i, r := range runDecodeChild("plonk", id, vk, pub, proof, "witness", datas) {
					d := base
					d.Backend = "witness"
					d.Edit = "witness-bytes:" + names[i] + r.suffix
					data := datas[i]
					if len(wbcases) < 220 && len(data) < 300 && r.cls != 2 && r.cls != 3 {
						bs := make([]*big.Int, len(data))
						for k, b := range data {
							bs[k] = big.NewInt(int64(b))
						}
						wbcases = append(wbcases, fmt.Sprintf("(%s, %d, %s, %s)", zlit(q), width, zlist(bs), coqbool(r.decoded)))
					}
					if r.leak {
						rep.Fail("witness-header-mismatch", "decoded witness declares more public values than its vector holds; Public() pads/leaks", d)
					}
					report(d, r.cls, r.msg, false)
				}
			}()
		}
	}
	var sb strings.Builder
	sb.WriteString("From Coq Require Import ZArith List Bool.\nFrom GnarkV Require Import Base.Res Codec.ProofShape Codec.ProofShapeCases.\nImport ListNotations.\n")
	sb.WriteString(fmt.Sprintf("Definition g16cases : list g16case := %s.\n", coqlistNL(g16cases)))
	sb.WriteString("Definition mism_c08_g16 := Eval vm_compute in mism g16_check 0 g16cases.\nPrint mism_c08_g16.\n")
	sb.WriteString(fmt.Sprintf("Definition plonkcases : list plonkcase := %s.\n", coqlistNL(plonkcases)))
	sb.WriteString("Definition mism_c08_plonk := Eval vm_compute in mism plonk_check 0 plonkcases.\nPrint mism_c08_plonk.\n")
	sb.WriteString(fmt.Sprintf("Definition wbcases : list wbcase := %s.\n", coqlistNL(wbcases)))
	sb.WriteString("Definition mism_c08_witness := Eval vm_compute in mism wb_check 0 wbcases.\nPrint mism_c08_witness.\n")
	writeFile(o.Out, "cases_C08.v", sb.String())
	rep.CoqCases = len(g16cases) + len(plonkcases) + len(wbcases)
	rep.Write(o.Out)
	return 0
}

// byteEdits enumerates byte-level mutations of a genuine encoding
func byteEdits(r *RNG, data []byte, thorough bool, f func(name string, data []byte)) {
	n := len(data)
	// every truncation length (bounded sample for long encodings)
	step := 1
	if n > 200 && !thorough {
		step = n / 100
	}
	for l := 0; l < n; l += step {
		f(fmt.Sprintf("truncate=%d", l), append([]byte{}, data[:l]...))
	}
	f("truncate=last", append([]byte{}, data[:n-1]...))
	// flips: every byte of the first 16 (headers / length prefixes / flags), then a spread and random ones
	offs := map[int]bool{}
	for i := 0; i < 16 && i < n; i++ {
		offs[i] = true
	}
	for i := 0; i < n; i += max(1, n/40) {
		offs[i] = true
	}
	for i := 0; i < 20; i++ {
		offs[r.Intn(n)] = true
	}
	for off := range offs {
		for _, x := range []byte{0xff, 0x80, 0x01} {
			d := append([]byte{}, data...)
			d[off] ^= x
			f(fmt.Sprintf("flip=%d^%02x", off, x), d)
		}
	}
	f("extend=3", append(append([]byte{}, data...), 1, 2, 3))
	f("empty", nil)
	for i := 0; i < 5; i++ {
		d := make([]byte, r.Intn(2*n+1))
		for j := range d {
			d[j] = byte(r.U64())
		}
		// keep length prefixes moderate: a random 32-bit count would only exercise allocation
		f(fmt.Sprintf("random=%d", i), d)
	}
	// two adjacent 32-bit counters whose sum wraps around to the original sum (witness header: nbPublic, nbSecret)
	if n >= 8 {
		be := func(d []byte, off int) uint32 {
			return uint32(d[off])<<24 | uint32(d[off+1])<<16 | uint32(d[off+2])<<8 | uint32(d[off+3])
		}
		put := func(d []byte, off int, v uint32) {
			d[off], d[off+1], d[off+2], d[off+3] = byte(v>>24), byte(v>>16), byte(v>>8), byte(v)
		}
		a, b := be(data, 0), be(data, 4)
		for _, k := range []uint32{1, 2, 3} {
			d := append([]byte{}, data...)
			put(d, 0, a+k)
			put(d, 4, b-k) // wraps below zero
			f(fmt.Sprintf("wrap-counters=+%d", k), d)
			d2 := append([]byte{}, data...)
			put(d2, 0, a-k)
			put(d2, 4, b+k)
			f(fmt.Sprintf("wrap-counters=-%d", k), d2)
		}
	}
	// set every 4-byte big-endian length prefix candidate to small / moderately large values
	for off := 0; off+4 <= n && off < 64; off += 4 {
		for _, v := range []uint32{0, 1, 2, 1000} {
			d := append([]byte{}, data...)
			d[off], d[off+1], d[off+2], d[off+3] = byte(v>>24), byte(v>>16), byte(v>>8), byte(v)
			f(fmt.Sprintf("u32@%d=%d", off, v), d)
		}
	}
}

// ---------------------------------------------------------------- memory-limited child for byte-level decoding

type childRes struct {
	cls     int
	msg     string
	suffix  string
	decoded bool
	leak    bool
}

func hexOf(x interface{}) string {
	if x == nil {
		return "-"
	}
	var b bytes.Buffer
	x.(io.WriterTo).WriteTo(&b)
	return fmt.Sprintf("%x", b.Bytes())
}

// runDecodeChild decodes (and then verifies) each byte string in a child process with a virtual-memory
// limit: a hostile length prefix makes gnark-crypto's decoder allocate, which kills the process
// (class 3 = crash); the child is restarted after the crashing case.
func runDecodeChild(backend string, id ecc.ID, vk interface{}, pub witness.Witness, proof interface{}, kind string, datas [][]byte) []childRes {
	res := make([]childRes, len(datas))
	self, _ := os.Executable()
	start := 0
	for start < len(datas) {
		var in bytes.Buffer
		pb, _ := pub.MarshalBinary()
		fmt.Fprintf(&in, "CTX %s %d %s %x %s %s\n", backend, uint16(id), hexOf(vk), pb, hexOf(proof), kind)
		for _, d := range datas[start:] {
			fmt.Fprintf(&in, "CASE %x\n", d)
		}
		cmd := exec.Command("sh", "-c", "ulimit -v 6000000; exec "+self+" c08child")
		cmd.Stdin = &in
		var out, errb bytes.Buffer
		cmd.Stdout, cmd.Stderr = &out, &errb
		cmd.Run()
		lines := strings.Split(strings.TrimSpace(out.String()), "\n")
		n := 0
		for _, l := range lines {
			f := strings.SplitN(l, "\t", 6)
			if len(f) < 6 || f[0] != "R" {
				continue
			}
			r := childRes{suffix: f[2], decoded: f[3] == "1", leak: f[4] == "1", msg: f[5]}
			fmt.Sscanf(f[1], "%d", &r.cls)
			res[start+n] = r
			n++
		}
		if start+n >= len(datas) {
			break
		}
		// the child died while processing case start+n
		msg := errb.String()
		if k := strings.Index(msg, "\n"); k > 0 {
			msg = msg[:k]
		}
		res[start+n] = childRes{cls: 3, msg: msg}
		start += n + 1
	}
	return res
}

func init() { commands["c08child"] = runC08Child }

func unhex(s string) []byte {
	if s == "-" || s == "" {
		return nil
	}
	b := make([]byte, len(s)/2)
	fmt.Sscanf(s, "%x", &b)
	return b
}

func runC08Child(args []string) int {
	rd := bufio.NewReaderSize(os.Stdin, 1<<24)
	w := bufio.NewWriter(os.Stdout)
	defer w.Flush()
	var backend, kind string
	var id ecc.ID
	var vkG groth16.VerifyingKey
	var vkP plonk.VerifyingKey
	var pub witness.Witness
	var proofP plonk.Proof
	for {
		line, err := rd.ReadString('\n')
		line = strings.TrimSpace(line)
		if line != "" {
			f := strings.Fields(line)
			switch f[0] {
			case "CTX":
				backend, kind = f[1], f[6]
				var n int
				fmt.Sscanf(f[2], "%d", &n)
				id = ecc.ID(n)
				pub, _ = witness.New(id.ScalarField())
				pub.UnmarshalBinary(unhex(f[4]))
				if backend == "groth16" {
					vkG = groth16.NewVerifyingKey(id)
					vkG.ReadFrom(bytes.NewReader(unhex(f[3])))
				} else {
					vkP = plonk.NewVerifyingKey(id)
					vkP.ReadFrom(bytes.NewReader(unhex(f[3])))
					if f[5] != "-" {
						proofP = plonk.NewProof(id)
						proofP.ReadFrom(bytes.NewReader(unhex(f[5])))
					}
				}
			case "CASE":
				var data []byte
				if len(f) > 1 {
					data = unhex(f[1])
				}
				cls, msg, suffix, decoded, leak := 0, "", "", false, false
				if kind == "proof" {
					if backend == "groth16" {
						p3 := groth16.NewProof(id)
						cls, msg = classOf(func() error { _, err := p3.ReadFrom(bytes.NewReader(data)); return err })
						if cls == 0 {
							decoded = true
							cls, msg = classOf(func() error { return groth16.Verify(p3, vkG, pub) })
							suffix = ":verify"
						}
					} else {
						p3 := plonk.NewProof(id)
						cls, msg = classOf(func() error { _, err := p3.ReadFrom(bytes.NewReader(data)); return err })
						if cls == 0 {
							decoded = true
							cls, msg = classOf(func() error { return plonk.Verify(p3, vkP, pub) })
							suffix = ":verify"
						}
					}
				} else {
					q := id.ScalarField()
					w3, _ := witness.New(q)
					cls, msg = classOf(func() error { return w3.UnmarshalBinary(data) })
					if cls == 0 {
						decoded = true
						cls, msg = classOf(func() error {
							pw, err := w3.Public()
							if err != nil {
								return err
							}
							if len(vecToBig(pw.Vector(), q)) > len(vecToBig(w3.Vector(), q)) {
								leak = true
							}
							return plonk.Verify(proofP, vkP, pw)
						})
						suffix = ":public+verify"
					}
				}
				msg = strings.ReplaceAll(strings.ReplaceAll(msg, "\n", " "), "\t", " ")
				if len(msg) > 150 {
					msg = msg[:150]
				}
				b2i := map[bool]int{false: 0, true: 1}
				fmt.Fprintf(w, "R\t%d\t%s\t%d\t%d\t%s\n", cls, suffix, b2i[decoded], b2i[leak], msg)
				w.Flush()
			}
		}
		if err != nil {
			break
		}
	}
	return 0
}
