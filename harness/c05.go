package main

import (
	"fmt"
	"math/big"
	"os"
	"sort"
	"strings"
	"time"
)

func init() { commands["c05"] = runC05 }

// ---------------------------------------------------------------- Go-side complete enumerator over a small field
// (the failing-input search of C05; the decisive check is the verified Coq enumerator on the same dump)

type sTerm struct {
	c int64
	w int
}
type sInstr struct {
	kind               int // 0 r1c, 1 sparse, 2 none
	l, r, o            []sTerm
	xa, xb, xc         int
	ql, qr, qo, qm, qc int64
	ws                 []int
}
type smallSys struct {
	p      int64
	instrs []sInstr
	nw     int
	nodes  int // search nodes visited (budget)
	budget int
}

func newSmallSys(p int64, d *DSystem) *smallSys {
	s := &smallSys{p: p, nw: d.NbWires()}
	c := func(b *big.Int) int64 {
		if b == nil {
			return 0
		}
		return b.Int64()
	}
	lx := func(l []DTerm) []sTerm {
		r := make([]sTerm, len(l))
		for i, t := range l {
			r[i] = sTerm{t.C.Int64(), t.W}
		}
		return r
	}
	for i := range d.Instrs {
		in := &d.Instrs[i]
		si := sInstr{kind: 2}
		switch in.Kind {
		case "R1C":
			si.kind = 0
			si.l, si.r, si.o = lx(in.L), lx(in.R), lx(in.O)
			for _, l := range [][]sTerm{si.l, si.r, si.o} {
				for _, t := range l {
					si.ws = append(si.ws, t.w)
				}
			}
		case "Sparse":
			if !in.Commit {
				si = sInstr{kind: 1, xa: in.XA, xb: in.XB, xc: in.XC, ql: c(in.QL), qr: c(in.QR), qo: c(in.QO), qm: c(in.QM), qc: c(in.QC)}
			}
		case "Mul":
			si = sInstr{kind: 1, xa: in.XA, xb: in.XB, xc: in.XC, qo: p - 1, qm: c(in.QM)}
		case "Add":
			si = sInstr{kind: 1, xa: in.XA, xb: in.XB, xc: in.XC, ql: c(in.QL), qr: c(in.QR), qo: p - 1, qc: c(in.QC)}
		case "Bool":
			si = sInstr{kind: 1, xa: in.XA, xb: in.XA, xc: in.XA, ql: c(in.QL), qm: c(in.QM)}
		}
		if si.kind == 1 { // a wire slot matters only if one of its coefficients is non-zero
			if si.ql != 0 || si.qm != 0 {
				si.ws = append(si.ws, si.xa)
			}
			if si.qr != 0 || si.qm != 0 {
				si.ws = append(si.ws, si.xb)
			}
			if si.qo != 0 {
				si.ws = append(si.ws, si.xc)
			}
		}
		s.instrs = append(s.instrs, si)
	}
	return s
}

func (s *smallSys) sat(in *sInstr, v []int64) bool {
	p := s.p
	switch in.kind {
	case 0:
		ev := func(l []sTerm) int64 {
			var r int64
			for _, t := range l {
				r = (r + t.c*v[t.w]) % p
			}
			return r
		}
		return (ev(in.l)*ev(in.r))%p == ev(in.o)
	case 1:
		g := func(w int) int64 {
			if v[w] < 0 {
				return 0 // unused slot
			}
			return v[w]
		}
		return (in.ql*g(in.xa)+in.qr*g(in.xb)+in.qo*g(in.xc)+in.qm*((g(in.xa)*g(in.xb))%p)+in.qc)%p == 0
	}
	return true
}

// enumerate returns all extensions (nil,false if the system is not of the handled shape); v[w] = -1: unassigned
func (s *smallSys) enumerate(v []int64, pending []int, limit int) ([][]int64, bool) {
	if len(pending) == 0 {
		return [][]int64{append([]int64{}, v...)}, true
	}
	s.nodes++
	if s.nodes > s.budget {
		return nil, true
	}
	for pi, idx := range pending {
		in := &s.instrs[idx]
		x, nun := -1, 0
		for _, w := range in.ws {
			if v[w] < 0 && w != x {
				x = w
				nun++
			}
		}
		if nun > 1 {
			continue
		}
		rest := make([]int, 0, len(pending)-1)
		rest = append(rest, pending[:pi]...)
		rest = append(rest, pending[pi+1:]...)
		if nun == 0 {
			if !s.sat(in, v) {
				return nil, true
			}
			return s.enumerate(v, rest, limit)
		}
		var out [][]int64
		for e := int64(0); e < s.p; e++ {
			v[x] = e
			if s.sat(in, v) {
				r, ok := s.enumerate(v, rest, limit)
				if !ok {
					v[x] = -1
					return nil, false
				}
				out = append(out, r...)
				if len(out) > limit {
					break
				}
			}
		}
		v[x] = -1
		return out, true
	}
	// nothing ready: a free choice of the prover (e.g. a hint output): try every value of the first unassigned wire
	for _, idx := range pending {
		for _, w := range s.instrs[idx].ws {
			if v[w] < 0 {
				var out [][]int64
				for e := int64(0); e < s.p; e++ {
					v[w] = e
					r, _ := s.enumerate(v, pending, limit)
					out = append(out, r...)
					if len(out) > limit || s.nodes > s.budget {
						break
					}
				}
				v[w] = -1
				return out, true
			}
		}
	}
	return nil, false
}

// ---------------------------------------------------------------- program printing (Coq Spec syntax)

var coqOpNames = map[string]string{"Add": "OAdd", "Sub": "OSub", "Neg": "ONeg", "Mul": "OMul", "MulAcc": "OMulAcc", "Div": "ODiv",
	"DivUnchecked": "ODivUnchecked", "Inverse": "OInverse", "FromBinary": "OFromBinary", "Xor": "OXor", "Or": "OOr", "And": "OAnd",
	"Select": "OSelect", "Lookup2": "OLookup2", "IsZero": "OIsZero", "Cmp": "OCmp", "AssertIsEqual": "OAssertEq",
	"AssertIsDifferent": "OAssertDiff", "AssertIsBoolean": "OAssertBool", "AssertIsLessOrEqual": "OAssertLeq", "Hint2": "OHint2"}

func coqProg(p *Prog) string {
	ss := make([]string, len(p.Ops))
	for i, o := range p.Ops {
		name := coqOpNames[o.Kind]
		if o.Kind == "ToBinary" {
			name = fmt.Sprintf("OToBinary %d", o.N)
		}
		as := make([]string, len(o.Args))
		for j, a := range o.Args {
			if a.Const {
				as[j] = "AC " + zlit(a.C)
			} else {
				as[j] = fmt.Sprintf("AV %d", a.V)
			}
		}
		ss[i] = fmt.Sprintf("(%s, %s)", name, coqlist(as))
	}
	return coqlist(ss)
}

// wires of program inputs and outputs in a compiled ProgCircuit
func progWires(p *Prog, d *DSystem) (in []int, out []int) {
	off := 0
	if d.IsR1CS {
		off = 1
	}
	for i := 0; i < p.NbPub; i++ {
		in = append(in, off+i)
	}
	for j := range p.Outs {
		out = append(out, off+p.NbPub+j)
	}
	for k := 0; k < p.NbSec; k++ {
		in = append(in, off+p.NbPub+len(p.Outs)+k)
	}
	return
}

// ---------------------------------------------------------------- systematic single-op programs

// singleOpProgs: every op kind x every constant/variable pattern of its operands (constants drawn
// from a small set), inputs all distinct variables, every result exposed (up to 3).
func singleOpProgs(r *RNG, q *big.Int, thorough bool) []*Prog {
	arity := map[string]int{"Add": 2, "Sub": 2, "Neg": 1, "Mul": 2, "MulAcc": 3, "Div": 2, "DivUnchecked": 2, "Inverse": 1,
		"ToBinary": 1, "FromBinary": 3, "Xor": 2, "Or": 2, "And": 2, "Select": 3, "Lookup2": 6, "IsZero": 1, "Cmp": 2,
		"AssertIsEqual": 2, "AssertIsDifferent": 2, "AssertIsBoolean": 1, "AssertIsLessOrEqual": 2, "Hint2": 2}
	consts := []int64{0, 1, 2, 5, 46, 23}
	var progs []*Prog
	kinds := make([]string, 0)
	for k := range arity {
		kinds = append(kinds, k)
	}
	sort.Strings(kinds)
	for _, k := range kinds {
		if k == "Hint2" {
			continue
		}
		n := arity[k]
		npat := 1 << uint(n)
		if n > 3 {
			npat = 6 // sampled patterns
		}
		for pat := 0; pat < npat; pat++ {
			mask := pat
			if n > 3 {
				mask = r.Intn(1 << uint(n))
				if pat == 0 {
					mask = 0
				}
			}
			if mask == (1<<uint(n))-1 && n > 0 && (strings.HasPrefix(k, "Assert") || k == "ToBinary") {
				continue // all-constant assertions are decided (or panic) at compile time
			}
			// constants: every combination for ops of arity <= 2, one random choice otherwise
			isBoolPos := func(i int) bool {
				return (k == "Xor" || k == "Or" || k == "And" || k == "FromBinary" || k == "AssertIsBoolean") ||
					(k == "Select" && i == 0) || (k == "Lookup2" && i < 2)
			}
			var choices [][]*big.Int // one vector of constants (per masked position, in order) per program
			var masked []int
			for i := 0; i < n; i++ {
				if mask&(1<<uint(i)) != 0 {
					masked = append(masked, i)
				}
			}
			sysKinds := map[string]bool{"Div": true, "DivUnchecked": true, "Cmp": true, "AssertIsLessOrEqual": true}
			if n <= 2 && ((len(masked) == 1 && sysKinds[k]) || thorough) {
				choices = [][]*big.Int{{}}
				for _, i := range masked {
					pool := consts
					if isBoolPos(i) {
						pool = []int64{0, 1}
					}
					var next [][]*big.Int
					for _, v := range choices {
						for _, c := range pool {
							next = append(next, append(append([]*big.Int{}, v...), big.NewInt(c)))
						}
					}
					choices = next
				}
			} else {
				var v []*big.Int
				for _, i := range masked {
					c := big.NewInt(consts[r.Intn(len(consts))])
					if isBoolPos(i) {
						c = big.NewInt(int64(r.Intn(2)))
					}
					v = append(v, c)
				}
				choices = [][]*big.Int{v}
			}
			for _, cv := range choices {
				op := Op{Kind: k}
				nv := 0
				bad := false
				ci := 0
				for i := 0; i < n; i++ {
					if mask&(1<<uint(i)) != 0 {
						c := cv[ci]
						ci++
						if (k == "Div" || k == "DivUnchecked") && i == 1 && c.Sign() == 0 {
							bad = true // division by the constant 0 is refused at compile time (documented)
						}
						if k == "Inverse" && c.Sign() == 0 {
							bad = true
						}
						op.Args = append(op.Args, Arg{Const: true, C: c})
					} else {
						op.Args = append(op.Args, Arg{V: nv})
						nv++
					}
				}
				if bad {
					continue
				}
				widths := []int{0}
				if k == "ToBinary" {
					widths = []int{1, 3, 5, 6, 7} // 7: wider than the field (6 bits)
				}
				for _, wdt := range widths {
					o2 := op
					o2.N = wdt
					if k == "ToBinary" && o2.Args[0].Const && o2.Args[0].C.BitLen() > wdt {
						continue
					}
					p := &Prog{NbPub: 0, NbSec: nv, Ops: []Op{o2}}
					if nv == 0 {
						p.NbSec = 1 // at least one input
					}
					if nv >= 2 {
						p.NbPub = 1
						p.NbSec = nv - 1
					}
					nres := o2.nres(q.BitLen())
					first := p.NbPub + p.NbSec
					for i := 0; i < nres && i < 3; i++ {
						p.Outs = append(p.Outs, first+i)
					}
					if nres > 3 { // expose the top bits too
						p.Outs[2] = first + nres - 1
					}
					progs = append(progs, p)
				}
			}
		}
	}
	return progs
}

// scaledOperandProgs: ops whose operands must be boolean (or are asserted so), applied to a SCALED term c*x that the
// builders keep as (coefficient, wire) without a new wire: the assertion is about the value c*x, not about the wire x
func scaledOperandProgs() []*Prog {
	var progs []*Prog
	mkScaled := func(kind string, c int64) Op {
		switch kind {
		case "Neg":
			return Op{Kind: "Neg", Args: []Arg{{V: 0}}}
		case "Add":
			return Op{Kind: "Add", Args: []Arg{{V: 0}, {V: 0}}}
		case "DivUnchecked":
			return Op{Kind: "DivUnchecked", Args: []Arg{{V: 0}, {Const: true, C: big.NewInt(c)}}}
		}
		return Op{Kind: "Mul", Args: []Arg{{V: 0}, {Const: true, C: big.NewInt(c)}}}
	}
	for _, sc := range []struct {
		kind string
		c    int64
	}{{"Mul", 2}, {"Mul", 46}, {"Mul", 23}, {"Neg", 0}, {"Add", 0}, {"DivUnchecked", 2}} {
		// inputs: v0 = x, v1 = y ; v2 = scaled(x)
		for _, cons := range []Op{
			{Kind: "AssertIsBoolean", Args: []Arg{{V: 2}}},
			{Kind: "Xor", Args: []Arg{{V: 2}, {V: 1}}},
			{Kind: "And", Args: []Arg{{V: 1}, {V: 2}}},
			{Kind: "Select", Args: []Arg{{V: 2}, {V: 1}, {V: 0}}},
		} {
			p := &Prog{NbPub: 1, NbSec: 1, Ops: []Op{mkScaled(sc.kind, sc.c), cons}}
			if cons.Kind != "AssertIsBoolean" {
				p.Outs = []int{3}
			}
			progs = append(progs, p)
		}
	}
	return progs
}

func allTuples(n int, p int) [][]int64 {
	if n == 0 {
		return [][]int64{{}}
	}
	sub := allTuples(n-1, p)
	var out [][]int64
	for _, s := range sub {
		for e := 0; e < p; e++ {
			out = append(out, append(append([]int64{}, s...), int64(e)))
		}
	}
	return out
}

func sampleTuples(r *RNG, n int, p int, count int) [][]int64 {
	small := []int64{0, 1, 2, 3, 23, 24, 31, 32, 45, 46}
	var out [][]int64
	for i := 0; i < count; i++ {
		t := make([]int64, n)
		for j := range t {
			switch r.Intn(3) {
			case 0:
				t[j] = int64(r.Intn(2))
			case 1:
				t[j] = small[r.Intn(len(small))]
			default:
				t[j] = int64(r.Intn(p))
			}
		}
		out = append(out, t)
	}
	return out
}

type c05Desc struct {
	Target string `json:"target"`
	Prog   string `json:"prog"`
	Tuples int    `json:"tuples"`
}

// raw hints are opaque oracles: their outputs are unconstrained by definition, so they are not part of C05
var noHintKinds = func() []string {
	var r []string
	for _, k := range allKinds {
		if k != "Hint2" {
			r = append(r, k)
		}
	}
	return r
}()

func runC05(args []string) int {
	o := parseOpts(args)
	rng := NewRNG(o.Seed)
	rep := NewReport("C05")
	rep.Rule = "every API op x every constant/variable operand pattern (single-op programs) plus seeded multi-op programs are compiled by the real r1cs and scs builders over F_47; for every input tuple (all 47^k tuples for k<=2 inputs, a boundary-biased sample otherwise) the complete set of satisfying assignments of the *emitted* constraints is enumerated (Go search + verified Coq enumerator) and its projection on the exposed outputs is compared with the documented meaning; non-trivial = tuple on a system with at least one constraint; distinct = distinct (target, program, tuple)"
	q := tinyMod
	progs := singleOpProgs(rng, q, o.Thorough())
	progs = append(progs, scaledOperandProgs()...)
	nrand := 30
	maxTuples := 300
	if o.Thorough() {
		nrand = 300
		maxTuples = 2209
	}
	for i := 0; i < nrand; i++ {
		p := GenProg(rng, q, GenCfg{MaxOps: 4, Kinds: noHintKinds})
		progs = append(progs, p)
	}
	// multi-call motifs (sharing, repeated sums with proportional coefficients and a constant, cancellation ...): the
	// emitted constraints of a call may depend on what earlier calls recorded (gate re-use tables, boolean marks)
	rngM := NewRNG(o.Seed + 4242)
	nmotif := 24
	if o.Thorough() {
		nmotif = 40
	}
	for i := 0; i < nmotif; i++ {
		p := GenMotifProg(rngM, q)
		hint := false
		for _, op := range p.Ops {
			if op.Kind == "Hint2" {
				hint = true
			}
		}
		if !hint {
			progs = append(progs, p)
		}
	}
	// systematic: a sum recorded once and requested again with proportional coefficients, with and without a
	// constant term, the constant kept or scaled (the sparse builder's gate re-use table)
	{
		V := func(i int) Arg { return Arg{V: i} }
		C := func(x int64) Arg { return Arg{Const: true, C: new(big.Int).Mod(big.NewInt(x), q)} }
		for _, n := range []int64{2, 3, -1} {
			for _, k := range []int64{5, 0} {
				for _, k2 := range []int64{k, n * k} {
					// one wire: Add(x, k); Add(n*x, k2)
					progs = append(progs, &Prog{NbPub: 0, NbSec: 1, Ops: []Op{{Kind: "Add", Args: []Arg{V(0), C(k)}}, {Kind: "Mul", Args: []Arg{V(0), C(n)}},
						{Kind: "Add", Args: []Arg{V(2), C(k2)}}}, Outs: []int{1, 3}})
					// two wires: Add(x, y, k); Add(n*x, n*y, k2)
					progs = append(progs, &Prog{NbPub: 0, NbSec: 2, Ops: []Op{{Kind: "Add", Args: []Arg{V(0), V(1), C(k)}}, {Kind: "Mul", Args: []Arg{V(0), C(n)}},
						{Kind: "Mul", Args: []Arg{V(1), C(n)}}, {Kind: "Add", Args: []Arg{V(3), V(4), C(k2)}}}, Outs: []int{2, 5}})
				}
			}
		}
	}
	var cases []string
	var descs []interface{}
	budgetInstr := 0
	coqBudget := 2500000
	if o.Thorough() {
		coqBudget = 40000000
	}
	for _, p := range progs {
		for _, t := range []Target{{"tiny", q, true}, {"tiny", q, false}} {
			ccs, cerr := compileTarget(t, NewProgCircuit(p))
			if cerr != "" {
				rep.Count("compile:" + strings.SplitN(cerr, ":", 2)[0])
				if strings.HasPrefix(cerr, "panic") && !strings.Contains(cerr, "constant") && !strings.Contains(cerr, "non-boolean") &&
					!strings.Contains(cerr, "div by 0") && !strings.Contains(cerr, "different") && !strings.Contains(cerr, "not equal") {
					rep.Count("compile-panic:" + cerr)
				}
				continue
			}
			d := DumpSystem(ccs)
			if d.HasOther {
				continue
			}
			for _, op := range p.Ops {
				rep.Count("op:" + op.Kind + ":" + t.String())
			}
			nin := p.NbPub + p.NbSec
			var tuples [][]int64
			if nin <= 2 && len(d.Instrs) <= 40 {
				tuples = allTuples(nin, 47)
				if len(tuples) > maxTuples && len(p.Ops) > 1 {
					tuples = sampleTuples(rng, nin, 47, maxTuples)
				}
			} else {
				n := maxTuples
				if len(d.Instrs) > 60 {
					n = 60
				}
				tuples = sampleTuples(rng, nin, 47, n)
			}
			inW, outW := progWires(p, d)
			ss := newSmallSys(47, d)
			pending := make([]int, len(d.Instrs))
			for i := range pending {
				pending[i] = i
			}
			desc := c05Desc{t.String(), p.String(), len(tuples)}
			overBudget := false
			maxNodes := 0             // largest search tree of the Go enumeration over this case's tuples: a proxy for the Coq enumerator's cost
			codes := map[string]int{} // tuple -> verdict code of the Go search (0 = agrees with the documented meaning)
			nfail := 0
			if os.Getenv("VERIF_DEBUG") != "" {
				fmt.Fprintln(os.Stderr, time.Now().Format("15:04:05.000"), t, len(d.Instrs), len(tuples), p.String())
			}
			for _, tu := range tuples {
				v := make([]int64, d.NbWires())
				for i := range v {
					v[i] = -1
				}
				if d.IsR1CS {
					v[0] = 1
				}
				inputs := make([]*big.Int, nin)
				for i, w := range inW {
					v[w] = tu[i]
					inputs[i] = big.NewInt(tu[i])
				}
				ss.nodes, ss.budget = 0, 200000
				sols, ok := ss.enumerate(v, pending, 5000)
				if ss.nodes > maxNodes {
					maxNodes = ss.nodes
				}
				if ss.nodes > ss.budget {
					rep.Count("skipped:search-budget")
					overBudget = true
					break
				}
				key := fmt.Sprintf("%s|%s|%v", t, p, tu)
				rep.Eval(key, len(d.Instrs) > 0)
				if !ok {
					rep.Fail("c05:enumerator-shape:"+t.String(), "emitted constraints have an instruction with two free wires and nothing else ready", map[string]interface{}{"desc": desc, "tuple": tu})
					break
				}
				vals, sok, free, why := EvalSpec(p, q, inputs)
				want := make([]int64, len(p.Outs))
				for i, ov := range p.Outs {
					want[i] = vals[ov].Int64()
				}
				reach := map[string][]int64{}
				for _, s := range sols {
					r := make([]int64, len(outW))
					for i, w := range outW {
						r[i] = s[w]
					}
					reach[fmt.Sprint(r)] = r
				}
				_, hasWant := reach[fmt.Sprint(want)]
				var verdict string
				switch {
				case free: // the documented unconstrained case: only "the documented result is reachable" is decidable
					if sok && !hasWant {
						verdict = "unsat-but-spec-ok:divunchecked-0-0"
					}
				case sok:
					if len(reach) == 0 {
						verdict = "unsat-but-spec-ok"
					} else if len(reach) > 1 || !hasWant {
						verdict = "wrong-output-satisfiable"
					}
				default:
					if len(reach) > 0 {
						verdict = "violated-assertion-satisfiable"
					}
				}
				if verdict != "" {
					codes[fmt.Sprint(tu)] = map[string]int{"violated-assertion-satisfiable": 2, "unsat-but-spec-ok": 3, "unsat-but-spec-ok:divunchecked-0-0": 3, "wrong-output-satisfiable": 4}[verdict]
					rep.Count("verdict:" + verdict)
					nfail++
					if nfail > 3 {
						continue
					}
					kinds := progKinds(p)
					rep.Fail(fmt.Sprintf("c05:%s:%s:%s", verdict, t.String(), strings.Join(kinds, "+")),
						fmt.Sprintf("%s: inputs %v: documented meaning %s (outs %v, %s) but the emitted constraints admit outputs %v", verdict, tu, map[bool]string{true: "holds", false: "fails"}[sok], want, why, keysOf(reach)),
						map[string]interface{}{"desc": desc, "tuple": tu})
					continue
				}
				rep.Count("verdict:agree")
			}
			rep.Sample(desc)
			// Coq case (bounded total cost; the cost of one tuple grows with the square of the system size)
			maxSys := 45
			if o.Thorough() {
				maxSys = 150
			}
			if !overBudget && len(d.Instrs) <= maxSys && budgetInstr < coqBudget {
				nt := tuples
				maxT := 2209
				if !o.Thorough() {
					maxT = 400
				}
				if len(d.Instrs) > 8 {
					maxT = 20000 / (len(d.Instrs) * len(d.Instrs))
					if maxT < 6 {
						maxT = 6
					}
				}
				if maxNodes > 60 {
					// expensive enumeration (many free hint wires): a spread of the tuples goes to Coq, the Go search covered all
					lim := 6000 / maxNodes
					if o.Thorough() {
						lim = 40000 / maxNodes
					}
					if lim < maxT {
						maxT = lim
					}
					if maxT < 6 {
						maxT = 6
					}
				}
				if len(nt) > maxT {
					// keep a spread: boundary tuples first, then evenly spaced
					var sel [][]int64
					step := len(nt) / maxT
					for i := 0; i < len(nt) && len(sel) < maxT; i += step {
						sel = append(sel, nt[i])
					}
					nt = sel
				}
				budgetInstr += (len(d.Instrs)*len(d.Instrs) + 20) * len(nt)
				ins := coqInstrList(d)
				var exc []string
				for i, tu := range nt {
					if c, ok := codes[fmt.Sprint(tu)]; ok {
						exc = append(exc, fmt.Sprintf("(%d, %d)", i, c))
					}
				}
				ts := make([]string, len(nt))
				for i, tu := range nt {
					bs := make([]*big.Int, len(tu))
					for j, x := range tu {
						bs[j] = big.NewInt(x)
					}
					ts[i] = zlist(bs)
				}
				cases = append(cases, fmt.Sprintf("{| e_r1cs := %s; e_nbwires := %d; e_instrs := %s;\n   e_in_wires := %s; e_out_wires := %s; e_prog := %s; e_outs := %s;\n   e_expect := %s; e_inputs := %s |}",
					coqbool(d.IsR1CS), d.NbWires(), coqlistNL(ins), intlist(inW), intlist(outW), coqProg(p), intlist(p.Outs), coqlist(exc), coqlist(ts)))
				descs = append(descs, desc)
			}
		}
	}
	// shard the Coq cases into files evaluated in parallel
	nshard := 16
	for s := 0; s < nshard; s++ {
		var sb strings.Builder
		sb.WriteString("From Coq Require Import ZArith List Bool.\nFrom GnarkV Require Import Base.Res CS.Solver Frontend.Spec Frontend.C05Cases.\nImport ListNotations.\n")
		var sub []string
		for i := s; i < len(cases); i += nshard {
			sub = append(sub, cases[i])
		}
		sb.WriteString(fmt.Sprintf("Definition ecases : list ecase := %s.\n", coqlistNL(sub)))
		sb.WriteString(fmt.Sprintf("Definition mism_c05_%d := Eval vm_compute in ecases_mismatches 0 ecases.\nPrint mism_c05_%d.\n", s, s))
		writeFile(o.Out, fmt.Sprintf("cases_C05_%d.v", s), sb.String())
	}
	rep.CoqCases = len(cases)
	rep.Extra["case_index"] = descs
	rep.Extra["coq_shards"] = nshard
	rep.Write(o.Out)
	return 0
}

func keysOf(m map[string][]int64) []string {
	var ks []string
	for k := range m {
		ks = append(ks, k)
	}
	sort.Strings(ks)
	if len(ks) > 6 {
		ks = ks[:6]
	}
	return ks
}
