package main

// C19, model tie: the in-circuit GKR verifier (std/gkr Verify / verifySumcheck) is observed through the
// verif hook (circuit, assignment, proof, every Fiat-Shamir challenge) and every one of its assertions is
// recorded; the executable Gallina verifier (Std/Gkr.v) is evaluated on the same data inside Coq and must
// reach the same outcome for every wire and overall.  Honest runs come from the gadget flow in the test
// engine; forged runs call gkr.Verify directly with an altered proof / assignment.

import (
	"fmt"
	"math/big"
	"strings"

	"github.com/consensys/gnark/frontend"
	fiatshamir "github.com/consensys/gnark/std/fiat-shamir"
	"github.com/consensys/gnark/std/gkr"
	"github.com/consensys/gnark/std/hash/mimc"
	"github.com/consensys/gnark/std/polynomial"
	"github.com/consensys/gnark/test"
)

type gkrEvent struct {
	ev   string
	wire int
	vals []*big.Int
}

type gkrCapture struct {
	c      gkr.Circuit
	sorted []*gkr.Wire
	asg    gkr.WireAssignment
	proof  gkr.Proof
	events []gkrEvent
	calls  int
}

func mustBig(v frontend.Variable) *big.Int {
	b, ok := toBigVar(v)
	if !ok {
		panic(fmt.Sprintf("c19 model tie: cannot read engine value of type %T", v))
	}
	return b.Mod(b, bnQ)
}

func (cp *gkrCapture) install() {
	gkr.VerifVerifyHook = func(c gkr.Circuit, sorted []*gkr.Wire, a gkr.WireAssignment, p gkr.Proof) {
		cp.c, cp.sorted, cp.asg, cp.proof = c, sorted, a, p
		cp.calls++
	}
	gkr.VerifTraceHook = func(ev string, w int, vals []frontend.Variable) {
		e := gkrEvent{ev: ev, wire: w}
		for _, v := range vals {
			e.vals = append(e.vals, mustBig(v))
		}
		cp.events = append(cp.events, e)
	}
}

func gkrUninstall() { gkr.VerifVerifyHook, gkr.VerifTraceHook = nil, nil }

// plain data of one verifier call
type gkrWireD struct {
	gate string // "" = input wire
	ins  []int
}
type gkrData struct {
	nvars int
	wires []gkrWireD
	tabs  [][]*big.Int   // assignment tables of input and output wires (nil otherwise)
	polys [][][]*big.Int // [wire][round][values at 1..d]
	vs    [][]*big.Int   // [wire] final evaluation proof
}

func bigsOfVars(vs []frontend.Variable) []*big.Int {
	out := make([]*big.Int, len(vs))
	for i, v := range vs {
		out[i] = mustBig(v)
	}
	return out
}

func (cp *gkrCapture) data() *gkrData {
	idx := map[*gkr.Wire]int{}
	for i, w := range cp.sorted {
		idx[w] = i
	}
	d := &gkrData{}
	for i, w := range cp.sorted {
		wd := gkrWireD{}
		if !w.IsInput() {
			wd.gate = gkr.VerifGateName(w.Gate)
			for _, in := range w.Inputs {
				wd.ins = append(wd.ins, idx[in])
			}
		}
		d.wires = append(d.wires, wd)
		var tab []*big.Int
		if w.IsInput() || w.IsOutput() {
			tab = bigsOfVars(cp.asg[w])
			d.nvars = polynomial.MultiLin(cp.asg[w]).NumVars()
		}
		d.tabs = append(d.tabs, tab)
		var ps [][]*big.Int
		for _, p := range cp.proof[i].PartialSumPolys {
			ps = append(ps, bigsOfVars(p))
		}
		d.polys = append(d.polys, ps)
		d.vs = append(d.vs, bigsOfVars(cp.proof[i].FinalEvalProof))
	}
	return d
}

func (d *gkrData) clone() *gkrData {
	cpb := func(xs []*big.Int) []*big.Int {
		if xs == nil {
			return nil
		}
		o := make([]*big.Int, len(xs))
		for i, x := range xs {
			o[i] = new(big.Int).Set(x)
		}
		return o
	}
	e := &gkrData{nvars: d.nvars, wires: d.wires}
	for i := range d.wires {
		e.tabs = append(e.tabs, cpb(d.tabs[i]))
		var ps [][]*big.Int
		for _, p := range d.polys[i] {
			ps = append(ps, cpb(p))
		}
		e.polys = append(e.polys, ps)
		e.vs = append(e.vs, cpb(d.vs[i]))
	}
	return e
}

// lenient API: assertions are recorded instead of aborting the run, so that every later challenge and
// assertion of the verifier is observed too
type lenientAPI struct {
	frontend.API
	res *[]bool
}

func (l *lenientAPI) AssertIsEqual(a, b frontend.Variable) {
	*l.res = append(*l.res, mustBig(a).Cmp(mustBig(b)) == 0)
}

type gkrVerifyFn struct{ f func(api frontend.API) error }

// the function sits behind a pointer: the engine clones the circuit and compares with reflect.DeepEqual
type gkrVerifyOnly struct {
	Dummy frontend.Variable
	h     *gkrVerifyFn
}

func (c *gkrVerifyOnly) Define(api frontend.API) error { return c.h.f(api) }

type gkrOutcome struct {
	verdicts []bool // per wire (wire order)
	chComb   []*big.Int
	chRs     [][]*big.Int
	rho      []*big.Int
	err      string
}

// run gkr.Verify directly in the test engine on the captured circuit objects with the values of d
func (cp *gkrCapture) verifyDirect(d *gkrData) *gkrOutcome {
	out := &gkrOutcome{}
	asg := make(gkr.WireAssignment, len(cp.sorted))
	proof := make(gkr.Proof, len(cp.sorted))
	toVars := func(xs []*big.Int) []frontend.Variable {
		o := make([]frontend.Variable, len(xs))
		for i, x := range xs {
			o[i] = new(big.Int).Set(x)
		}
		return o
	}
	for i, w := range cp.sorted {
		if d.tabs[i] != nil {
			asg[w] = toVars(d.tabs[i])
		}
		if len(d.polys[i]) > 0 {
			proof[i].PartialSumPolys = make([]polynomial.Polynomial, len(d.polys[i]))
			for j, p := range d.polys[i] {
				proof[i].PartialSumPolys[j] = toVars(p)
			}
		}
		proof[i].FinalEvalProof = toVars(d.vs[i])
	}
	var res []bool
	rec := &gkrCapture{}
	rec.install()
	defer gkrUninstall()
	f := func(api frontend.API) error {
		l := &lenientAPI{API: api, res: &res}
		h, err := mimc.NewMiMC(l)
		if err != nil {
			return err
		}
		return gkr.Verify(l, cp.c, asg, proof, fiatshamir.WithHash(&h), gkr.WithSortedCircuit(cp.sorted))
	}
	var err error
	pm := catchPanic(func() { err = test.IsSolved(&gkrVerifyOnly{h: &gkrVerifyFn{f}}, &gkrVerifyOnly{Dummy: 0}, bnQ) })
	if pm != "" {
		out.err = "panic: " + pm
		return out
	}
	if err != nil {
		out.err = shortErr(err)
		return out
	}
	out.fill(rec.events, len(cp.sorted), res)
	return out
}

func (o *gkrOutcome) fill(events []gkrEvent, nw int, res []bool) {
	o.chComb = make([]*big.Int, nw)
	o.chRs = make([][]*big.Int, nw)
	cur := -1
	for _, e := range events {
		switch e.ev {
		case "first":
			o.rho = e.vals
		case "wire":
			cur = e.wire
		case "comb":
			o.chComb[cur] = e.vals[0]
		case "r":
			o.chRs[cur] = e.vals
		}
	}
	if res != nil {
		if len(res) != nw {
			o.err = fmt.Sprintf("%d assertions recorded for %d wires", len(res), nw)
			return
		}
		o.verdicts = make([]bool, nw)
		for k, b := range res {
			o.verdicts[nw-1-k] = b
		}
	}
}

var gkGateCoq = map[string]string{"add2": "GkAdd", "sub2": "GkSub", "mul2": "GkMul", "neg": "GkNeg", "identity": "GkId", c19Gate: "GkSqAdd"}

func coqBools(bs []bool) string {
	ss := make([]string, len(bs))
	for i, b := range bs {
		ss[i] = fmt.Sprint(b)
	}
	return coqlist(ss)
}

func gkrCoqCase(d *gkrData, o *gkrOutcome) string {
	var ws, tabs, proofs, chals []string
	for i, w := range d.wires {
		if w.gate == "" {
			ws = append(ws, "mkw None []")
		} else {
			ins := make([]string, len(w.ins))
			for k, j := range w.ins {
				ins[k] = fmt.Sprintf("%d%%nat", j)
			}
			ws = append(ws, fmt.Sprintf("mkw (Some %s) %s", gkGateCoq[w.gate], coqlist(ins)))
		}
		tabs = append(tabs, zlist(d.tabs[i]))
		var ps []string
		for _, p := range d.polys[i] {
			ps = append(ps, zlist(p))
		}
		proofs = append(proofs, fmt.Sprintf("mkp %s %s", coqlist(ps), zlist(d.vs[i])))
		c := big.NewInt(0)
		if o.chComb[i] != nil {
			c = o.chComb[i]
		}
		chals = append(chals, fmt.Sprintf("mkc %s %s", zlit(c), zlist(o.chRs[i])))
	}
	all := true
	for _, b := range o.verdicts {
		all = all && b
	}
	return fmt.Sprintf("{| gc_n := %d%%nat; gc_ws := %s; gc_tabs := %s; gc_rho := %s;\n   gc_proofs := %s;\n   gc_chals := %s; gc_verdicts := %s; gc_accept := %v |}",
		d.nvars, coqlist(ws), coqlist(tabs), zlist(o.rho), coqlist(proofs), coqlist(chals), coqBools(o.verdicts), all)
}

// c19ModelTie returns the Coq cases (one string per case) and reports oracle failures
func c19ModelTie(o *Opts, rng *RNG, rep *Report, topos []*gkrTopo) []string {
	var cases []string
	ntopo, maxForge := 3, 8
	if o.Thorough() {
		ntopo, maxForge = 14, 1000
	}
	done := 0
	for ti, t := range topos {
		if done >= ntopo {
			break
		}
		n := 2 << uint(ti%2)
		if len(t.Deps) > 0 {
			n = 4
		}
		if o.Thorough() && ti%5 == 4 && len(t.Deps) == 0 {
			n = 8
		}
		in := make([][]*big.Int, n)
		for k := range in {
			in[k] = make([]*big.Int, t.NIn)
			for i := range in[k] {
				in[k][i] = rng.FieldElem(bnQ)
			}
		}
		desc := c19Desc{Topo: t, NInst: n, Mode: "engine/model-tie"}
		// honest run through the gadget flow, observed
		cp := &gkrCapture{}
		cp.install()
		tmpl := newGkrCircuit(t, n)
		vals := t.eval(in)
		a := newGkrCircuit(t, n)
		for i := 0; i < t.NIn; i++ {
			for k := 0; k < n; k++ {
				a.In[i][k] = in[k][i]
			}
		}
		for si, w := range t.sinks() {
			for k := 0; k < n; k++ {
				a.Out[si][k] = vals[k][w]
			}
		}
		var err error
		pm := catchPanic(func() { err = test.IsSolved(tmpl, a, bnQ) })
		gkrUninstall()
		if pm != "" || err != nil || cp.calls != 1 {
			rep.Fail("c19:model-tie:honest-run", fmt.Sprintf("observed honest run failed: %s %v (Verify calls: %d)", pm, err, cp.calls), desc)
			continue
		}
		done++
		d := cp.data()
		for _, w := range d.wires {
			if w.gate != "" && gkGateCoq[w.gate] == "" {
				rep.Fail("c19:model-tie:unknown-gate", "gate without a Gallina counterpart: "+w.gate, desc)
			}
		}
		honest := &gkrOutcome{}
		honest.fill(cp.events, len(d.wires), nil)
		honest.verdicts = make([]bool, len(d.wires))
		for i := range honest.verdicts {
			honest.verdicts[i] = true
		}
		cases = append(cases, gkrCoqCase(d, honest))
		rep.Eval(fmt.Sprintf("gkrmodel|%s|%d|honest", t, n), true)
		rep.Count("model-tie:honest")
		// the same data through the direct call: must reproduce the challenges and accept
		od := cp.verifyDirect(d)
		if od.err != "" {
			rep.Fail("c19:model-tie:direct-call", "gkr.Verify called directly on the observed data fails: "+od.err, desc)
			continue
		}
		same := len(od.rho) == len(honest.rho)
		for i := range od.rho {
			same = same && od.rho[i].Cmp(honest.rho[i]) == 0
		}
		for _, b := range od.verdicts {
			same = same && b
		}
		if !same {
			rep.Fail("c19:model-tie:direct-call", "gkr.Verify called directly on the observed data does not reproduce the observed run", desc)
			continue
		}
		// forgeries
		type forge struct {
			name string
			mut  func(e *gkrData)
		}
		var forges []forge
		bump := func(x *big.Int) { x.Add(x, big.NewInt(1)).Mod(x, bnQ) }
		for i := range d.wires {
			i := i
			for j := range d.polys[i] {
				for k := range d.polys[i][j] {
					j, k := j, k
					forges = append(forges, forge{fmt.Sprintf("wire %d round %d value %d + 1", i, j, k), func(e *gkrData) { bump(e.polys[i][j][k]) }})
				}
			}
			for k := range d.vs[i] {
				k := k
				forges = append(forges, forge{fmt.Sprintf("wire %d final evaluation %d + 1", i, k), func(e *gkrData) { bump(e.vs[i][k]) }})
			}
			if d.tabs[i] != nil {
				for _, k := range []int{0, len(d.tabs[i]) - 1} {
					k := k
					kind := "input"
					if d.wires[i].gate != "" {
						kind = "output"
					}
					forges = append(forges, forge{fmt.Sprintf("%s table of wire %d entry %d + 1", kind, i, k), func(e *gkrData) { bump(e.tabs[i][k]) }})
				}
			}
		}
		step := 1
		if len(forges) > maxForge {
			step = (len(forges) + maxForge - 1) / maxForge
		}
		for fi := rng.Intn(step); fi < len(forges); fi += step {
			f := forges[fi]
			e := d.clone()
			f.mut(e)
			of := cp.verifyDirect(e)
			fd := desc
			fd.Detail = f.name
			rep.Eval(fmt.Sprintf("gkrmodel|%s|%d|%s", t, n, f.name), true)
			if of.err != "" {
				rep.Fail("c19:model-tie:direct-call", "gkr.Verify on a forged proof does not run to the end: "+of.err, fd)
				continue
			}
			acc := true
			for _, b := range of.verdicts {
				acc = acc && b
			}
			rep.Count("model-tie:forged:" + map[bool]string{true: "accepted", false: "rejected"}[acc] + ":" + strings.SplitN(f.name, " ", 2)[0])
			if acc {
				rep.Fail("c19:forged-accepted:verify-direct", "the in-circuit GKR verifier accepts an altered proof / assignment: "+f.name, fd)
			}
			cases = append(cases, gkrCoqCase(e, of))
		}
	}
	return cases
}
