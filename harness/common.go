package main

import (
	"encoding/json"
	"flag"
	"fmt"
	"math/big"
	"os"
	"path/filepath"
	"sort"
	"strings"
)

// ---------------------------------------------------------------- PRNG (splitmix64)

type RNG struct{ s uint64 }

func NewRNG(seed uint64) *RNG { return &RNG{s: seed*0x9E3779B97F4A7C15 + 0x1234567} }
func (r *RNG) U64() uint64 {
	r.s += 0x9E3779B97F4A7C15
	z := r.s
	z = (z ^ (z >> 30)) * 0xBF58476D1CE4E5B9
	z = (z ^ (z >> 27)) * 0x94D049BB133111EB
	return z ^ (z >> 31)
}
func (r *RNG) Intn(n int) int {
	if n <= 0 {
		return 0
	}
	return int(r.U64() % uint64(n))
}
func (r *RNG) Bool() bool { return r.U64()&1 == 1 }
func (r *RNG) Big(mod *big.Int) *big.Int {
	nb := (mod.BitLen() + 63) / 64
	b := new(big.Int)
	for i := 0; i < nb+1; i++ {
		b.Lsh(b, 64)
		b.Or(b, new(big.Int).SetUint64(r.U64()))
	}
	return b.Mod(b, mod)
}

// Interesting field element: boundary values with high probability.
func (r *RNG) FieldElem(mod *big.Int) *big.Int {
	switch r.Intn(10) {
	case 0:
		return big.NewInt(0)
	case 1:
		return big.NewInt(1)
	case 2:
		return new(big.Int).Sub(mod, big.NewInt(1))
	case 3:
		return new(big.Int).Mod(big.NewInt(2), mod)
	case 4:
		k := r.Intn(mod.BitLen())
		v := new(big.Int).Lsh(big.NewInt(1), uint(k))
		v.Add(v, big.NewInt(int64(r.Intn(3)-1)))
		return v.Mod(v, mod)
	default:
		return r.Big(mod)
	}
}

// ---------------------------------------------------------------- common flags / report

type Opts struct {
	Seed   uint64
	Tier   string
	Out    string
	Replay string
}

func parseOpts(args []string) *Opts {
	fs := flag.NewFlagSet("harness", flag.ExitOnError)
	o := &Opts{}
	fs.Uint64Var(&o.Seed, "seed", 1, "seed")
	fs.StringVar(&o.Tier, "tier", "quick", "quick|thorough")
	fs.StringVar(&o.Out, "out", ".", "output directory")
	fs.StringVar(&o.Replay, "replay", "", "replay file")
	fs.Parse(args)
	os.MkdirAll(o.Out, 0o755)
	return o
}

// AllCurves: every supported curve (thorough tier, or when the driver found the per-curve instances to diverge)
func (o *Opts) AllCurves() bool { return o.Thorough() || os.Getenv("VERIF_ALL_CURVES") != "" }

func (o *Opts) Thorough() bool { return o.Tier == "thorough" }

// Failure is a concrete input on which the property text itself fails on the implementation
// (decided by the Go-side oracle, independent of the Coq model).
type Failure struct {
	Sig  string      `json:"sig"`  // stable signature (matched against KNOWN_FINDINGS.jsonl)
	What string      `json:"what"` // human readable
	Case interface{} `json:"case"` // the replayable input
}

type Report struct {
	Property     string                 `json:"property"`
	Evaluations  int                    `json:"evaluations"`
	Distinct     int                    `json:"distinct_nontrivial"`
	Rule         string                 `json:"rule"`
	Samples      []interface{}          `json:"samples"`
	Distribution map[string]int         `json:"distribution"`
	Failures     []Failure              `json:"oracle_failures"`
	CoqCases     int                    `json:"coq_cases"`
	CaseIndex    []interface{}          `json:"case_index,omitempty"` // description of each Coq case (for triage)
	Extra        map[string]interface{} `json:"extra,omitempty"`
	distinct     map[string]bool
}

func NewReport(prop string) *Report {
	return &Report{Property: prop, Distribution: map[string]int{}, distinct: map[string]bool{}, Extra: map[string]interface{}{}}
}

func (r *Report) Count(kind string) { r.Distribution[kind]++ }

// Eval records one evaluation; key identifies the canonicalised case, nontrivial says whether it
// exercised a non-default path.
func (r *Report) Eval(key string, nontrivial bool) {
	r.Evaluations++
	if nontrivial && !r.distinct[key] {
		r.distinct[key] = true
		r.Distinct++
	}
}
func (r *Report) Sample(s interface{}) {
	if len(r.Samples) < 5 {
		r.Samples = append(r.Samples, s)
	}
}
func (r *Report) Fail(sig, what string, c interface{}) {
	for _, f := range r.Failures {
		if f.Sig == sig && len(r.Failures) > 40 {
			return
		}
	}
	r.Failures = append(r.Failures, Failure{sig, what, c})
}
func (r *Report) Write(dir string) {
	if r.Failures == nil {
		r.Failures = []Failure{}
	}
	b, _ := json.MarshalIndent(r, "", " ")
	os.WriteFile(filepath.Join(dir, "report.json"), b, 0o644)
}

// ---------------------------------------------------------------- Coq printing

// Coq cases files keep the default (nat) scope; Z literals are delimited explicitly
func zlit(b *big.Int) string {
	if b.Sign() < 0 {
		return "(" + b.String() + ")%Z"
	}
	return b.String() + "%Z"
}
func zlist(bs []*big.Int) string {
	ss := make([]string, len(bs))
	for i, b := range bs {
		if b.Sign() < 0 {
			ss[i] = "(" + b.String() + ")"
		} else {
			ss[i] = b.String()
		}
	}
	return "[" + strings.Join(ss, "; ") + "]%Z"
}
func intlist(xs []int) string {
	ss := make([]string, len(xs))
	for i, x := range xs {
		ss[i] = fmt.Sprint(x)
	}
	return "[" + strings.Join(ss, "; ") + "]"
}
func coqlist(ss []string) string { return "[" + strings.Join(ss, "; ") + "]" }
func coqlistNL(ss []string) string {
	if len(ss) == 0 {
		return "[]"
	}
	return "[\n  " + strings.Join(ss, ";\n  ") + "\n]"
}
func coqbool(b bool) string {
	if b {
		return "true"
	}
	return "false"
}
func coqstr(s string) string { return "\"" + strings.ReplaceAll(s, "\"", "\"\"") + "\"" }

func sortedKeys(m map[string]int) []string {
	ks := make([]string, 0, len(m))
	for k := range m {
		ks = append(ks, k)
	}
	sort.Strings(ks)
	return ks
}

func writeFile(dir, name, content string) {
	if err := os.WriteFile(filepath.Join(dir, name), []byte(content), 0o644); err != nil {
		panic(err)
	}
}

// safely runs f, returning a panic as a string
func catchPanic(f func()) (p string) {
	defer func() {
		if r := recover(); r != nil {
			p = fmt.Sprint(r)
			if len(p) > 200 {
				p = p[:200]
			}
			if p == "" {
				p = "panic"
			}
		}
	}()
	f()
	return ""
}
