package main

// All-curve edited-proof tests shared by C01 (Groth16) and C02 (PLONK): for every supported curve a
// genuine proof is taken through the generic backend API and every group element found in the proof
// object (reflection over the curve-specific struct) is replaced in memory by another element:
// its negative, its double, and — where the curve has a cofactor — the element plus a point of small
// order (still on the curve, outside the prime-order subgroup, pairing to 1 with everything).  The
// verifier must reject each edited proof, and must reject the genuine proof for other public inputs.

import (
	"bytes"
	"fmt"
	"io"
	"reflect"

	"github.com/consensys/gnark-crypto/ecc"
	"github.com/consensys/gnark/backend/groth16"
	"github.com/consensys/gnark/backend/plonk"
	"github.com/consensys/gnark/constraint"
	"github.com/consensys/gnark/frontend"
	"github.com/consensys/gnark/frontend/cs/r1cs"
	"github.com/consensys/gnark/frontend/cs/scs"
	"github.com/consensys/gnark/test/unsafekzg"
)

var allCurves = []ecc.ID{ecc.BN254, ecc.BLS12_377, ecc.BLS12_381, ecc.BW6_761, ecc.BLS24_315, ecc.BLS24_317, ecc.BW6_633}

func curvesFor(o *Opts) []ecc.ID {
	if o.AllCurves() {
		return allCurves
	}
	return allCurves[:4]
}

// walkPoints calls f for every addressable curve point reachable through exported fields
func walkPoints(v reflect.Value, path string, f func(path string, ptr interface{})) {
	switch v.Kind() {
	case reflect.Ptr, reflect.Interface:
		if !v.IsNil() {
			walkPoints(v.Elem(), path, f)
		}
	case reflect.Struct:
		if v.CanAddr() && v.Addr().CanInterface() && isCurvePoint(v.Addr().Interface()) {
			f(path, v.Addr().Interface())
			return
		}
		for i := 0; i < v.NumField(); i++ {
			if v.Type().Field(i).PkgPath != "" { // unexported
				continue
			}
			walkPoints(v.Field(i), path+"."+v.Type().Field(i).Name, f)
		}
	case reflect.Slice, reflect.Array:
		for i := 0; i < v.Len(); i++ {
			walkPoints(v.Index(i), fmt.Sprintf("%s[%d]", path, i), f)
		}
	}
}

type rawIO interface {
	io.ReaderFrom
	WriteRawTo(io.Writer) (int64, error)
}

type editDesc struct {
	Backend string `json:"backend"`
	Curve   string `json:"curve"`
	Circuit string `json:"circuit"`
	Element string `json:"element"`
	Edit    string `json:"edit"`
	Detail  string `json:"detail,omitempty"`
}

// runEdits: fresh() returns a new in-memory copy of the genuine proof; verify runs the verifier
func runEdits(rep *Report, sigPrefix string, d editDesc, fresh func() (interface{}, error), verify func(p interface{}) error) {
	p0, err := fresh()
	if err != nil {
		rep.Fail(sigPrefix+":clone", "cannot copy the genuine proof through its raw encoding: "+err.Error(), d)
		return
	}
	if err := verify(p0); err != nil {
		rep.Fail(sigPrefix+":rejects-genuine", "the genuine proof is rejected after a raw round trip: "+shortErr(err), d)
		return
	}
	var paths []string
	walkPoints(reflect.ValueOf(p0), "proof", func(path string, _ interface{}) { paths = append(paths, path) })
	if len(paths) < 3 {
		rep.Fail(sigPrefix+":walk", fmt.Sprintf("only %d group elements found in the proof object", len(paths)), d)
	}
	for idx, path := range paths {
		for _, kind := range []string{"neg", "double", "torsion"} {
			p, _ := fresh()
			var ptrs []interface{}
			walkPoints(reflect.ValueOf(p), "proof", func(_ string, ptr interface{}) { ptrs = append(ptrs, ptr) })
			if pointIsInfinity(ptrs[idx]) || !editPoint(ptrs[idx], kind) {
				// the point at infinity marks a slot the verifying key does not use (Groth16's proof of knowledge of
				// commitments for a key without commitments): not an element of the proof
				continue
			}
			dd := d
			dd.Element, dd.Edit = path, kind
			var verr error
			pm := catchPanic(func() { verr = verify(p) })
			rep.Eval(fmt.Sprintf("edit|%s|%s|%s|%s|%s", d.Backend, d.Curve, d.Circuit, path, kind), true)
			rep.Count(fmt.Sprintf("allcurves:%s:%s:%s", d.Backend, d.Curve, kind))
			switch {
			case pm != "":
				dd.Detail = pm
				rep.Fail(sigPrefix+":panic:"+kind, "the verifier panics on an edited proof: "+pm, dd)
			case verr == nil:
				what := "another element of the group"
				if kind == "torsion" {
					what = "the element plus a point of small order (on the curve, outside the prime-order subgroup)"
				}
				rep.Fail(sigPrefix+":accepts-edited:"+kind, fmt.Sprintf("%s %s: the proof with %s replaced by %s is accepted", d.Backend, d.Curve, path, what), dd)
			}
		}
	}
}

func allCurvesGroth16(o *Opts, rep *Report) {
	specs := map[string]bool{"cubic": true, "commit1": true, "commit2-independent": true}
	for _, id := range curvesFor(o) {
		for _, sp := range g16Specs() {
			if !specs[sp.name] {
				continue
			}
			d := editDesc{Backend: "groth16", Curve: id.String(), Circuit: sp.name}
			ccs, err := frontend.Compile(id.ScalarField(), r1cs.NewBuilder[constraint.U64], sp.mk())
			if err != nil {
				rep.Fail("c01:allcurves:compile", err.Error(), d)
				continue
			}
			pk, vk, err := groth16.Setup(ccs)
			if err != nil {
				rep.Fail("c01:allcurves:setup", err.Error(), d)
				continue
			}
			w, _ := frontend.NewWitness(sp.asg(0), id.ScalarField())
			pub, _ := w.Public()
			proof, err := groth16.Prove(ccs, pk, w)
			if err != nil {
				rep.Fail("c01:allcurves:prove", shortErr(err), d)
				continue
			}
			if err := groth16.Verify(proof, vk, pub); err != nil {
				rep.Fail("c01:allcurves:rejects-genuine", shortErr(err), d)
				continue
			}
			var raw bytes.Buffer
			if _, err := proof.(rawIO).WriteRawTo(&raw); err != nil {
				rep.Fail("c01:allcurves:clone", err.Error(), d)
				continue
			}
			fresh := func() (interface{}, error) {
				p := groth16.NewProof(id)
				_, err := p.ReadFrom(bytes.NewReader(raw.Bytes()))
				return p, err
			}
			runEdits(rep, "c01:allcurves", d, fresh, func(p interface{}) error { return groth16.Verify(p.(groth16.Proof), vk, pub) })
			// replay against other public inputs
			w2, _ := frontend.NewWitness(sp.asg(1), id.ScalarField())
			pub2, _ := w2.Public()
			rep.Eval(fmt.Sprintf("replay|groth16|%s|%s", id, sp.name), true)
			if groth16.Verify(proof, vk, pub2) == nil {
				rep.Fail("c01:allcurves:replay-accepted", "a genuine proof is accepted for other public inputs", d)
			}
		}
	}
}

func allCurvesPlonk(o *Opts, rep *Report) {
	specs := map[string]bool{"cubic": true, "commit1": true, "commit2-independent": true}
	for _, id := range curvesFor(o) {
		for _, sp := range g16Specs() {
			if !specs[sp.name] {
				continue
			}
			d := editDesc{Backend: "plonk", Curve: id.String(), Circuit: sp.name}
			ccs, err := frontend.Compile(id.ScalarField(), scs.NewBuilder[constraint.U64], sp.mk())
			if err != nil {
				rep.Fail("c02:allcurves:compile", err.Error(), d)
				continue
			}
			srs, lag, err := unsafekzg.NewSRS(ccs, unsafekzg.WithFSCache())
			if err != nil {
				rep.Fail("c02:allcurves:srs", err.Error(), d)
				continue
			}
			pk, vk, err := plonk.Setup(ccs, srs, lag)
			if err != nil {
				rep.Fail("c02:allcurves:setup", err.Error(), d)
				continue
			}
			w, _ := frontend.NewWitness(sp.asg(0), id.ScalarField())
			pub, _ := w.Public()
			proof, err := plonk.Prove(ccs, pk, w)
			if err != nil {
				rep.Fail("c02:allcurves:prove", shortErr(err), d)
				continue
			}
			if err := plonk.Verify(proof, vk, pub); err != nil {
				rep.Fail("c02:allcurves:rejects-genuine", shortErr(err), d)
				continue
			}
			var raw bytes.Buffer
			if _, err := proof.(rawIO).WriteRawTo(&raw); err != nil {
				rep.Fail("c02:allcurves:clone", err.Error(), d)
				continue
			}
			fresh := func() (interface{}, error) {
				p := plonk.NewProof(id)
				_, err := p.ReadFrom(bytes.NewReader(raw.Bytes()))
				return p, err
			}
			runEdits(rep, "c02:allcurves", d, fresh, func(p interface{}) error { return plonk.Verify(p.(plonk.Proof), vk, pub) })
			w2, _ := frontend.NewWitness(sp.asg(1), id.ScalarField())
			pub2, _ := w2.Public()
			rep.Eval(fmt.Sprintf("replay|plonk|%s|%s", id, sp.name), true)
			if plonk.Verify(proof, vk, pub2) == nil {
				rep.Fail("c02:allcurves:replay-accepted", "a genuine proof is accepted for other public inputs", d)
			}
		}
	}
}
