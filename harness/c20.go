package main

// C20: proofs are freshly blinded and committed values are masked.

import (
	"reflect"
	"bytes"
	"fmt"
	"math/big"
	"strings"

	"github.com/consensys/gnark-crypto/ecc"
	curve "github.com/consensys/gnark-crypto/ecc/bn254"
	"github.com/consensys/gnark-crypto/ecc/bn254/fr"
	"github.com/consensys/gnark-crypto/ecc/bn254/fr/fft"
	"github.com/consensys/gnark/backend"
	"github.com/consensys/gnark/backend/groth16"
	"github.com/consensys/gnark/backend/plonk"
	pl "github.com/consensys/gnark/backend/plonk/bn254"
	"github.com/consensys/gnark/constraint"
	cs_bn254 "github.com/consensys/gnark/constraint/bn254"
	"github.com/consensys/gnark/frontend"
	"github.com/consensys/gnark/frontend/cs/r1cs"
	"github.com/consensys/gnark/frontend/cs/scs"
	"github.com/consensys/gnark/test/unsafekzg"
)

func init() { commands["c20"] = runC20 }

type c20Desc struct {
	Backend string `json:"backend"`
	Circuit string `json:"circuit"`
	Curve   string `json:"curve"`
	What    string `json:"what"`
}

// pointIsInfinityStr: textual form of a point with both coordinates zero
func pointIsInfinityStr(s string) bool {
	return strings.Trim(s, "{}[] 0") == ""
}

func ptKey(p interface{ Marshal() []byte }) string { return fmt.Sprintf("%x", p.Marshal()) }

// evaluate the polynomial interpolating vals on the domain of size n at tau
func lagrangeEval(vals []*big.Int, n int, omega, tau *big.Int) *big.Int {
	tn1 := subq(new(big.Int).Exp(tau, big.NewInt(int64(n)), bnQ), big.NewInt(1))
	acc := new(big.Int)
	for j, v := range vals {
		wj := new(big.Int).Exp(omega, big.NewInt(int64(j)), bnQ)
		lag := mulq(mulq(wj, tn1), invq(mulq(big.NewInt(int64(n)), subq(tau, wj))))
		acc = addq(acc, mulq(lag, v))
	}
	return acc
}

func polyEval(coeffs []*big.Int, x *big.Int) *big.Int {
	acc := new(big.Int)
	for i := len(coeffs) - 1; i >= 0; i-- {
		acc = addq(mulq(acc, x), coeffs[i])
	}
	return acc
}

func runC20(args []string) int {
	o := parseOpts(args)
	rng := NewRNG(o.Seed)
	rep := NewReport("C20")
	rep.Rule = "bn254 white box: for each circuit 3 proofs of the SAME witness are produced with the verif hooks observing (r, s), the solved wires and the PLONK blinding coefficients; checked: randomness non-zero and pairwise distinct, each blinded element equals [model scalar with that randomness]·G (Groth16: Ar, Bs, Krs; PLONK: [L],[R],[O] = [l(tau) + b(tau)(tau^n-1)] with tau set by the harness), differs from the unblinded [model scalar with zero randomness]·G, and differs pairwise across the 3 proofs (also Z, the commitments, and H with the statistical zero-knowledge option); other curves: pairwise difference only; non-trivial = each (circuit, backend, check); distinct as counted"
	var coqCases []string
	nproofs := 3
	// ---------------- Groth16
	for si, sp := range g16Specs() {
		desc := c20Desc{"groth16", sp.name, "bn254", ""}
		run, err := g16Setup(sp.name, sp.mk(), rng)
		if err != nil {
			rep.Fail("harness:setup", err.Error(), desc)
			continue
		}
		full, _ := frontend.NewWitness(sp.asg(si), bnQ)
		var obs []*g16ProofObs
		for k := 0; k < nproofs; k++ {
			po, err := run.prove(full)
			if err != nil {
				rep.Fail("harness:prove", err.Error(), desc)
				break
			}
			obs = append(obs, po)
			rep.Eval(fmt.Sprintf("g16|%s|proof%d", sp.name, k), true)
			d := desc
			if po.r.Sign() == 0 || po.s.Sign() == 0 {
				d.What = "r or s is zero"
				rep.Fail("c20:g16:zero-randomness", "the prover used r = 0 or s = 0", d)
			}
			for _, e := range po.errs {
				d.What = e
				rep.Fail("c20:g16:element-not-blinded-as-modelled:"+strings.SplitN(e, "[", 2)[0], "proof element is not [model scalar with the observed (r,s)]·G: "+e, d)
			}
			// unblinded values computable from public data and a guessed witness
			if q := g1Mul(po.Ar0); po.proof.Ar.Equal(&q) {
				d.What = "Ar unblinded"
				rep.Fail("c20:g16:unblinded:Ar", "Ar equals the deterministic [alpha + A·w]·G", d)
			}
			bs0 := addq(run.tox[2], dotq(run.B, po.W))
			if q := g2Mul(bs0); po.proof.Bs.Equal(&q) {
				d.What = "Bs unblinded"
				rep.Fail("c20:g16:unblinded:Bs", "Bs equals the deterministic [beta + B·w]·G2", d)
			}
			if run.n <= 16 && k == 0 {
				coqCases = append(coqCases, run.coqCase(po))
			}
		}
		for a := 0; a < len(obs); a++ {
			for b := a + 1; b < len(obs); b++ {
				d := desc
				pa, pb := obs[a], obs[b]
				rep.Eval(fmt.Sprintf("g16|%s|pair%d-%d", sp.name, a, b), true)
				if pa.r.Cmp(pb.r) == 0 || pa.s.Cmp(pb.s) == 0 {
					d.What = "randomness reused"
					rep.Fail("c20:g16:randomness-reused", "two proofs used the same r or s", d)
				}
				if pa.proof.Ar.Equal(&pb.proof.Ar) || pa.proof.Bs.Equal(&pb.proof.Bs) || pa.proof.Krs.Equal(&pb.proof.Krs) {
					d.What = "element repeated"
					rep.Fail("c20:g16:element-repeated", "two proofs of the same witness share Ar, Bs or Krs", d)
				}
				for j := range pa.proof.Commitments {
					if pa.proof.Commitments[j].Equal(&pb.proof.Commitments[j]) {
						d.What = fmt.Sprintf("commitment %d repeated", j)
						rep.Fail("c20:g16:commitment-unmasked", "two proofs of the same witness carry the same commitment point: no fresh mask", d)
					}
				}
			}
		}
		rep.Sample(desc)
	}
	// ---------------- PLONK (bn254, SRS secret chosen by the harness)
	tau := rng.Big(bnQ)
	for si, sp := range g16Specs() {
		desc := c20Desc{"plonk", sp.name, "bn254", ""}
		ccs, err := frontend.Compile(bnQ, scs.NewBuilder[constraint.U64], sp.mk())
		if err != nil {
			rep.Fail("harness:compile", err.Error(), desc)
			continue
		}
		srs, srsL, err := unsafekzg.NewSRS(ccs, unsafekzg.WithToxicValue(tau))
		if err != nil {
			rep.Fail("harness:srs", err.Error(), desc)
			continue
		}
		pk, vk, err := plonk.Setup(ccs, srs, srsL)
		if err != nil {
			rep.Fail("harness:setup", err.Error(), desc)
			continue
		}
		full, _ := frontend.NewWitness(sp.asg(si), bnQ)
		pub, _ := full.Public()
		sys := ccs.(*cs_bn254.SparseR1CS)
		hasCommit := len(sys.CommitmentInfo.(constraint.PlonkCommitments)) > 0
		n := int(ecc.NextPowerOfTwo(uint64(sys.GetNbConstraints() + sys.GetNbPublicVariables())))
		omega := fft.NewDomain(uint64(n)).Generator.BigInt(new(big.Int))
		tn1 := subq(new(big.Int).Exp(tau, big.NewInt(int64(n)), bnQ), big.NewInt(1))
		// unblinded wire polynomials at tau (no commitment: the solution is deterministic)
		var l0 [3]*big.Int
		if !hasCommit {
			obs := SolveCapture(ccs, full, 1)
			if obs.Class == "ok" {
				l0[0], l0[1], l0[2] = lagrangeEval(obs.L, n, omega, tau), lagrangeEval(obs.R, n, omega, tau), lagrangeEval(obs.O, n, omega, tau)
			}
		}
		for _, szk := range []bool{false, true} {
			var proofs []*pl.Proof
			var blinds [][4][]*big.Int
			for k := 0; k < nproofs; k++ {
				var bl [4][]*big.Int
				pl.VerifHookBlinding = func(a, b, c, z []fr.Element) {
					for i, v := range [][]fr.Element{a, b, c, z} {
						for _, e := range v {
							bl[i] = append(bl[i], e.BigInt(new(big.Int)))
						}
					}
				}
				var popts []backend.ProverOption
				if szk {
					popts = append(popts, backend.WithStatisticalZeroKnowledge())
				}
				pr, err := plonk.Prove(ccs, pk, full, popts...)
				pl.VerifHookBlinding = nil
				if err != nil {
					rep.Fail("harness:prove", err.Error(), desc)
					break
				}
				if err := plonk.Verify(pr, vk, pub); err != nil {
					rep.Fail("c20:plonk:blinded-proof-rejected", "a blinded proof does not verify: "+err.Error(), desc)
				}
				p := pr.(*pl.Proof)
				proofs = append(proofs, p)
				blinds = append(blinds, bl)
				rep.Eval(fmt.Sprintf("plonk|%s|szk=%v|proof%d", sp.name, szk, k), true)
				d := desc
				names := []string{"L", "R", "O", "Z"}
				for i := 0; i < 4; i++ {
					want := 2
					if i == 3 {
						want = 3
					}
					if len(bl[i]) != want {
						d.What = fmt.Sprintf("blinding polynomial of %s has %d coefficients, expected %d", names[i], len(bl[i]), want)
						rep.Fail("c20:plonk:blinding-order:"+names[i], d.What, d)
					}
					allZero := true
					for _, c := range bl[i] {
						if c.Sign() != 0 {
							allZero = false
						}
					}
					if allZero {
						d.What = "blinding polynomial of " + names[i] + " is zero"
						rep.Fail("c20:plonk:zero-blinding:"+names[i], d.What, d)
					}
				}
				if l0[0] != nil {
					for i := 0; i < 3; i++ {
						want := addq(l0[i], mulq(polyEval(bl[i], tau), tn1))
						if q := g1Mul(want); !p.LRO[i].Equal(&q) {
							d.What = names[i] + " commitment is not [l(tau) + b(tau)(tau^n-1)]·G"
							rep.Fail("c20:plonk:element-not-blinded-as-modelled:"+names[i], d.What, d)
						}
						if q := g1Mul(l0[i]); p.LRO[i].Equal(&q) {
							d.What = names[i] + " commitment equals the unblinded [l(tau)]·G"
							rep.Fail("c20:plonk:unblinded:"+names[i], d.What, d)
						}
					}
					rep.Count("plonk:exponent-tie")
				}
			}
			for a := 0; a < len(proofs); a++ {
				for b := a + 1; b < len(proofs); b++ {
					d := desc
					pa, pb := proofs[a], proofs[b]
					rep.Eval(fmt.Sprintf("plonk|%s|szk=%v|pair%d-%d", sp.name, szk, a, b), true)
					same := func(x, y curve.G1Affine) bool { return x.Equal(&y) }
					for i := 0; i < 3; i++ {
						if same(pa.LRO[i], pb.LRO[i]) {
							d.What = fmt.Sprintf("LRO[%d] repeated", i)
							rep.Fail("c20:plonk:element-repeated:LRO", "two proofs of the same witness share a wire commitment", d)
						}
						if szk && same(pa.H[i], pb.H[i]) && i < 2 {
							d.What = fmt.Sprintf("H[%d] repeated with statistical zero-knowledge", i)
							rep.Fail("c20:plonk:element-repeated:H", "two proofs share a quotient shard although the statistical zero-knowledge option is on", d)
						}
					}
					if same(pa.Z, pb.Z) {
						d.What = "Z repeated"
						rep.Fail("c20:plonk:element-repeated:Z", "two proofs of the same witness share the permutation commitment", d)
					}
					for j := range pa.Bsb22Commitments {
						if same(pa.Bsb22Commitments[j], pb.Bsb22Commitments[j]) {
							d.What = fmt.Sprintf("BSB22 commitment %d repeated", j)
							rep.Fail("c20:plonk:commitment-unmasked", "two proofs of the same witness carry the same BSB22 commitment: no blinded positions", d)
						}
					}
					for i := 0; i < 4; i++ {
						if fmt.Sprint(blinds[a][i]) == fmt.Sprint(blinds[b][i]) {
							d.What = "blinding coefficients reused"
							rep.Fail("c20:plonk:randomness-reused", "two proofs used the same blinding polynomial", d)
						}
					}
				}
			}
		}
		rep.Sample(desc)
	}
	// ---------------- other curves: pairwise difference (black box)
	curves := []ecc.ID{ecc.BLS12_381}
	if o.AllCurves() {
		curves = []ecc.ID{ecc.BLS12_377, ecc.BLS12_381, ecc.BW6_761, ecc.BLS24_315, ecc.BLS24_317, ecc.BW6_633}
	}
	for _, id := range curves {
		q := id.ScalarField()
		bbSpecs := g16Specs()[:4]
		if o.AllCurves() {
			bbSpecs = g16Specs() // every circuit shape on every curve
		}
		for si, sp := range bbSpecs {
			full, _ := frontend.NewWitness(sp.asg(si), q)
			for _, be := range []string{"groth16", "plonk"} {
				desc := c20Desc{be, sp.name, id.String(), ""}
				var encs []string
				var objs []interface{}
				if be == "groth16" {
					ccs, err := frontend.Compile(q, r1cs.NewBuilder[constraint.U64], sp.mk())
					if err != nil {
						continue
					}
					pk, _, _ := groth16.Setup(ccs)
					for k := 0; k < 2; k++ {
						p, err := groth16.Prove(ccs, pk, full)
						if err != nil {
							rep.Fail("harness:prove", err.Error(), desc)
							break
						}
						var b bytes.Buffer
						p.WriteRawTo(&b)
						encs = append(encs, fmt.Sprintf("%x", b.Bytes()))
						objs = append(objs, p)
					}
				} else {
					ccs, err := frontend.Compile(q, scs.NewBuilder[constraint.U64], sp.mk())
					if err != nil {
						continue
					}
					srs, srsL, _ := unsafekzg.NewSRS(ccs)
					pk, _, _ := plonk.Setup(ccs, srs, srsL)
					for k := 0; k < 2; k++ {
						p, err := plonk.Prove(ccs, pk, full)
						if err != nil {
							rep.Fail("harness:prove", err.Error(), desc)
							break
						}
						var b bytes.Buffer
						p.WriteRawTo(&b)
						encs = append(encs, fmt.Sprintf("%x", b.Bytes()))
						objs = append(objs, p)
					}
				}
				// element by element: no group element of the proof (wire / quotient commitments, Ar, Bs, Krs, every commitment) may
				// repeat between two proofs of the same witness (PLONK's quotient shards and opening proofs are deterministic
				// functions of the rest and are exempt)
				if len(objs) == 2 {
					var pa, pb []string
					var names []string
					walkPoints(reflect.ValueOf(objs[0]), "proof", func(path string, ptr interface{}) {
						names = append(names, path)
						pa = append(pa, fmt.Sprintf("%v", reflect.ValueOf(ptr).Elem().Interface()))
					})
					walkPoints(reflect.ValueOf(objs[1]), "proof", func(path string, ptr interface{}) {
						pb = append(pb, fmt.Sprintf("%v", reflect.ValueOf(ptr).Elem().Interface()))
					})
					for i := range names {
						if i >= len(pb) || strings.Contains(names[i], ".H") || strings.Contains(names[i], "CommitmentPok") || pointIsInfinityStr(pa[i]) {
							continue
						}
						if pa[i] == pb[i] {
							d := desc
							d.What = names[i] + " repeated"
							sig := "c20:blackbox:element-repeated:" + be
							if strings.Contains(names[i], "ommitments") {
								sig = "c20:blackbox:commitment-unmasked:" + be
							}
							rep.Fail(sig, fmt.Sprintf("%s %s: two proofs of the same witness share %s", be, id, names[i]), d)
						}
					}
				}
				rep.Eval(fmt.Sprintf("%s|%s|%s", id, be, sp.name), true)
				if len(encs) == 2 {
					if encs[0] == encs[1] {
						rep.Fail("c20:blackbox:identical-proofs:"+be, "two proofs of the same witness are byte-identical", desc)
					}
				}
			}
		}
	}
	var sb strings.Builder
	sb.WriteString("From Coq Require Import ZArith List Bool.\nFrom GnarkV Require Import Backend.Groth16Setup Backend.Groth16Cases.\nImport ListNotations.\n")
	sb.WriteString(fmt.Sprintf("Definition cases : list gcase := %s.\n", coqlistNL(coqCases)))
	sb.WriteString("Definition mism_g16_blinded := Eval vm_compute in gmismatches 0 cases.\nPrint mism_g16_blinded.\n")
	writeFile(o.Out, "cases_C20.v", sb.String())
	rep.CoqCases = len(coqCases)
	rep.Write(o.Out)
	return 0
}
