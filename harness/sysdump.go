package main

// Dump of a compiled constraint system through its exported data (instructions, blueprints,
// calldata, levels, coefficient table), and capture of a Solve run (solution vectors, error
// class, hint calls) — the observations compared with the Coq solver model.

import (
	"fmt"
	"math/big"
	"reflect"
	"strings"
	"sync"

	"github.com/consensys/gnark/backend/witness"
	"github.com/consensys/gnark/constraint"
	"github.com/consensys/gnark/constraint/solver"
	fcs "github.com/consensys/gnark/frontend/cs"
)

type DTerm struct {
	C *big.Int // coefficient value
	W int      // wire; -1 = constant term
}

type DInstr struct {
	Kind               string // R1C, Sparse, Mul, Add, Bool, Hint, Lookup, Other
	CID                int
	L, R, O            []DTerm
	XA, XB, XC         int
	QL, QR, QO, QM, QC *big.Int
	Commit             bool
	HintID             uint32
	HIns               [][]DTerm
	Entries            [][]DTerm // lookup: the table entries visible to this instruction
	Start, NOut        int
	BlueprintName      string
}

type DSystem struct {
	IsR1CS        bool
	Field         *big.Int
	NbPub, NbSec  int // NbPub includes the ONE wire for R1CS
	NbInternal    int
	NbConstraints int
	Coeffs        []*big.Int
	Instrs        []DInstr
	Levels        [][]int
	HasOther      bool // some instruction kind the model does not cover (lookup, gkr, ...)
}

func (d *DSystem) NbWires() int { return d.NbPub + d.NbSec + d.NbInternal }

// sysOf returns the embedded *constraint.System of a concrete constraint system
func sysOf(ccs interface{}) *constraint.System {
	v := reflect.ValueOf(ccs)
	for v.Kind() == reflect.Ptr || v.Kind() == reflect.Interface {
		v = v.Elem()
	}
	f := v.FieldByName("System")
	return f.Addr().Interface().(*constraint.System)
}

type coeffStringer interface{ CoeffToString(int) string }
type nbCoeffs interface{ GetNbCoefficients() int }

func parseBig(s string) *big.Int {
	b, ok := new(big.Int).SetString(s, 10)
	if !ok {
		panic("bad number " + s)
	}
	return b
}

func DumpSystem(ccs interface{}) *DSystem {
	sys := sysOf(ccs)
	d := &DSystem{IsR1CS: sys.Type == constraint.SystemR1CS, Field: sys.Field(), NbPub: len(sys.Public), NbSec: len(sys.Secret),
		NbInternal: sys.NbInternalVariables, NbConstraints: sys.NbConstraints}
	nc := ccs.(nbCoeffs).GetNbCoefficients()
	cs := ccs.(coeffStringer)
	for i := 0; i < nc; i++ {
		c := parseBig(cs.CoeffToString(i)) // Element.String() prints small negatives as "-k"
		d.Coeffs = append(d.Coeffs, c.Mod(c, d.Field))
	}
	coef := func(id uint32) *big.Int { return d.Coeffs[id] }
	term := func(t constraint.Term) DTerm {
		if t.IsConstant() {
			return DTerm{coef(t.CID), -1}
		}
		return DTerm{coef(t.CID), int(t.VID)}
	}
	lexp := func(l constraint.LinearExpression) []DTerm {
		r := make([]DTerm, len(l))
		for i, t := range l {
			r[i] = term(t)
		}
		return r
	}
	for _, pi := range sys.Instructions {
		bp := sys.Blueprints[pi.BlueprintID]
		inst := pi.Unpack(sys)
		name := reflect.TypeOf(bp).String()
		di := DInstr{CID: int(inst.ConstraintOffset), BlueprintName: name}
		switch {
		case strings.Contains(name, "BlueprintGenericR1C"):
			var r1c constraint.R1C
			bp.(constraint.BlueprintR1C).DecompressR1C(&r1c, inst)
			di.Kind = "R1C"
			di.L, di.R, di.O = lexp(r1c.L), lexp(r1c.R), lexp(r1c.O)
		case strings.Contains(name, "BlueprintGenericSparseR1C"):
			var c constraint.SparseR1C
			bp.(constraint.BlueprintSparseR1C).DecompressSparseR1C(&c, inst)
			di.Kind = "Sparse"
			di.XA, di.XB, di.XC = int(c.XA), int(c.XB), int(c.XC)
			di.QL, di.QR, di.QO, di.QM, di.QC = coef(c.QL), coef(c.QR), coef(c.QO), coef(c.QM), coef(c.QC)
			di.Commit = c.Commitment != constraint.NOT
		case strings.Contains(name, "BlueprintSparseR1CMul"):
			cd := inst.Calldata
			di.Kind = "Mul"
			di.XA, di.XB, di.XC, di.QM = int(cd[0]), int(cd[1]), int(cd[2]), coef(cd[3])
		case strings.Contains(name, "BlueprintSparseR1CAdd"):
			cd := inst.Calldata
			di.Kind = "Add"
			di.XA, di.XB, di.XC, di.QL, di.QR, di.QC = int(cd[0]), int(cd[1]), int(cd[2]), coef(cd[3]), coef(cd[4]), coef(cd[5])
		case strings.Contains(name, "BlueprintSparseR1CBool"):
			cd := inst.Calldata
			di.Kind = "Bool"
			di.XA, di.QL, di.QM = int(cd[0]), coef(cd[1]), coef(cd[2])
		case strings.Contains(name, "BlueprintGenericHint"):
			var h constraint.HintMapping
			bp.(constraint.BlueprintHint).DecompressHint(&h, inst)
			di.Kind = "Hint"
			di.HintID = uint32(h.HintID)
			for _, l := range h.Inputs {
				di.HIns = append(di.HIns, lexp(l))
			}
			di.Start, di.NOut = int(h.OutputRange.Start), int(h.OutputRange.End-h.OutputRange.Start)
		case strings.Contains(name, "BlueprintLookupHint"):
			// calldata: [size, nbEntries, nbInputs, inputs...]; entries live in the blueprint
			ec := reflect.ValueOf(bp).Elem().FieldByName("EntriesCalldata")
			entries := make([]uint32, ec.Len())
			for i := range entries {
				entries[i] = uint32(ec.Index(i).Uint())
			}
			readLE := func(cd []uint32, j int) ([]DTerm, int) {
				n := int(cd[j])
				j++
				var l []DTerm
				for k := 0; k < n; k++ {
					l = append(l, term(constraint.Term{CID: cd[j], VID: cd[j+1]}))
					j += 2
				}
				return l, j
			}
			cd := inst.Calldata
			nbEntries, nbInputs := int(cd[1]), int(cd[2])
			di.Kind = "Lookup"
			j := 0
			for i := 0; i < nbEntries; i++ {
				var l []DTerm
				l, j = readLE(entries, j)
				di.Entries = append(di.Entries, l)
			}
			j = 3
			for i := 0; i < nbInputs; i++ {
				var l []DTerm
				l, j = readLE(cd, j)
				di.HIns = append(di.HIns, l)
			}
			di.Start, di.NOut = int(inst.WireOffset), nbInputs
		default:
			di.Kind = "Other"
			d.HasOther = true
		}
		d.Instrs = append(d.Instrs, di)
	}
	for _, l := range sys.Levels {
		lv := make([]int, len(l))
		for i, x := range l {
			lv[i] = int(x)
		}
		d.Levels = append(d.Levels, lv)
	}
	return d
}

// ---------------------------------------------------------------- Coq printing

func cterm(t DTerm) string { return fmt.Sprintf("(%s, %d)", zlit(t.C), t.W) }
func clexp(l []DTerm) string {
	ss := make([]string, len(l))
	for i, t := range l {
		ss[i] = cterm(t)
	}
	return coqlist(ss)
}
func chterm(t DTerm) string {
	if t.W < 0 {
		return fmt.Sprintf("(%s, None)", zlit(t.C))
	}
	return fmt.Sprintf("(%s, Some %d)", zlit(t.C), t.W)
}

func (di *DInstr) Coq() string {
	switch di.Kind {
	case "R1C":
		return fmt.Sprintf("IR1C Z %d %s %s %s", di.CID, clexp(di.L), clexp(di.R), clexp(di.O))
	case "Sparse":
		return fmt.Sprintf("ISparse Z %d %d %d %d %s %s %s %s %s %s", di.CID, di.XA, di.XB, di.XC,
			zlit(di.QL), zlit(di.QR), zlit(di.QO), zlit(di.QM), zlit(di.QC), coqbool(di.Commit))
	case "Mul":
		return fmt.Sprintf("IMul Z %d %d %d %d %s", di.CID, di.XA, di.XB, di.XC, zlit(di.QM))
	case "Add":
		return fmt.Sprintf("IAdd Z %d %d %d %d %s %s %s", di.CID, di.XA, di.XB, di.XC, zlit(di.QL), zlit(di.QR), zlit(di.QC))
	case "Bool":
		return fmt.Sprintf("IBool Z %d %d %s %s", di.CID, di.XA, zlit(di.QL), zlit(di.QM))
	case "Hint":
		ins := make([]string, len(di.HIns))
		for i, l := range di.HIns {
			ts := make([]string, len(l))
			for j, t := range l {
				ts[j] = chterm(t)
			}
			ins[i] = coqlist(ts)
		}
		return fmt.Sprintf("IHint Z %d %s %d %d", di.HintID, coqlist(ins), di.Start, di.NOut)
	case "Lookup":
		pl := func(ls [][]DTerm) string {
			out := make([]string, len(ls))
			for i, l := range ls {
				ts := make([]string, len(l))
				for j, t := range l {
					ts[j] = chterm(t)
				}
				out[i] = coqlist(ts)
			}
			return coqlist(out)
		}
		return fmt.Sprintf("ILookup Z %s %s %d", pl(di.Entries), pl(di.HIns), di.Start)
	}
	panic("cannot print instruction kind " + di.Kind)
}

func (d *DSystem) CoqInstrs() string {
	ss := make([]string, len(d.Instrs))
	for i := range d.Instrs {
		ss[i] = "(" + d.Instrs[i].Coq() + ")"
	}
	return coqlistNL(ss)
}

func (d *DSystem) FlatLevels() []int {
	var r []int
	for _, l := range d.Levels {
		r = append(r, l...)
	}
	return r
}

// ---------------------------------------------------------------- solving with capture

type HintCall struct {
	ID   uint32
	In   []*big.Int
	Out  []*big.Int
	Fail bool
}

type SolveObs struct {
	Class   string // ok, unsat, divzero, hint, notallsolved, bool, size, other, panic
	CID     int    // for unsat: constraint id
	Msg     string
	W       []*big.Int // R1CS only
	A, B, C []*big.Int // R1CS only
	L, R, O []*big.Int // sparse only
	Hints   []HintCall
}

func vecToBig(v interface{}, q *big.Int) []*big.Int {
	rv := reflect.ValueOf(v)
	out := make([]*big.Int, rv.Len())
	for i := 0; i < rv.Len(); i++ {
		e := rv.Index(i)
		m := e.Addr().MethodByName("String")
		s := m.Call(nil)[0].String()
		out[i] = parseBig(s)
		out[i].Mod(out[i], q)
	}
	return out
}

func classifyErr(err error) (string, int) {
	if err == nil {
		return "ok", 0
	}
	msg := err.Error()
	if u, ok := err.(interface{ Unwrap() error }); ok && false {
		_ = u
	}
	cid := -1
	if strings.HasPrefix(msg, "constraint #") {
		fmt.Sscanf(msg, "constraint #%d", &cid)
	}
	switch {
	case strings.Contains(msg, "division by 0"):
		return "divzero", cid
	case strings.Contains(msg, "boolean constraint doesn't hold"):
		return "bool", cid
	case strings.HasPrefix(msg, "constraint #"):
		return "unsat", cid
	case strings.Contains(msg, "didn't assign a value to all wires"):
		return "notallsolved", -1
	case strings.Contains(msg, "invalid witness size"):
		return "size", -1
	case strings.Contains(msg, "hint"):
		return "hint", -1
	}
	return "other", -1
}

// SolveCapture runs the real solver and records everything observable.  Hints are wrapped so
// that every call (inputs, outputs, failure) is recorded; failHint (if >= 0) makes that call fail.
func SolveCapture(ccs interface{}, w witness.Witness, nbTasks int, extra ...solver.Option) *SolveObs {
	obs := &SolveObs{}
	sys := sysOf(ccs)
	var mu sync.Mutex
	opts := []solver.Option{solver.WithNbTasks(nbTasks)}
	for id := range sys.MHintsDependencies {
		id := id
		f := solver.GetRegisteredHint(id)
		if id == solver.GetHintID(fcs.Bsb22CommitmentComputePlaceholder) {
			// the commitment hint is replaced by the provers; for plain solving use a deterministic stand-in
			f = func(q *big.Int, in, out []*big.Int) error {
				acc := big.NewInt(7)
				for _, x := range in {
					acc.Mul(acc, big.NewInt(31)).Add(acc, x).Mod(acc, q)
				}
				if acc.Sign() == 0 {
					acc.SetInt64(1)
				}
				out[0].Set(acc)
				return nil
			}
		}
		if f != nil && strings.HasSuffix(solver.GetHintName(f), "hints.Randomize") {
			// the random mask of in-circuit commitments: a fixed value makes solves comparable
			f = func(q *big.Int, in, out []*big.Int) error {
				for i := range out {
					out[i].SetInt64(0x5eed + int64(i))
				}
				return nil
			}
		}
		if f == nil {
			continue
		}
		opts = append(opts, solver.OverrideHint(id, func(q *big.Int, in, out []*big.Int) error {
			err := f(q, in, out)
			hc := HintCall{ID: uint32(id), Fail: err != nil}
			for _, x := range in {
				hc.In = append(hc.In, new(big.Int).Set(x))
			}
			for _, x := range out {
				hc.Out = append(hc.Out, new(big.Int).Mod(x, q))
			}
			mu.Lock()
			obs.Hints = append(obs.Hints, hc)
			mu.Unlock()
			return err
		}))
	}
	opts = append(opts, extra...)
	var sol interface{}
	var err error
	type solverT interface {
		Solve(witness.Witness, ...solver.Option) (any, error)
	}
	p := catchPanic(func() { sol, err = ccs.(solverT).Solve(w, opts...) })
	if p != "" {
		obs.Class, obs.Msg = "panic", p
		return obs
	}
	obs.Class, obs.CID = classifyErr(err)
	if err != nil {
		obs.Msg = err.Error()
		if len(obs.Msg) > 160 {
			obs.Msg = obs.Msg[:160]
		}
		return obs
	}
	sv := reflect.ValueOf(sol).Elem()
	get := func(n string) []*big.Int {
		f := sv.FieldByName(n)
		if !f.IsValid() {
			return nil
		}
		return vecToBig(f.Interface(), sys.Field())
	}
	obs.W, obs.A, obs.B, obs.C = get("W"), get("A"), get("B"), get("C")
	obs.L, obs.R, obs.O = get("L"), get("R"), get("O")
	return obs
}

// CheckSolution is the property oracle of C06, independent of the model: does the returned
// solution extend the witness and satisfy every exported constraint?  Returns "" if so.
func CheckSolution(d *DSystem, wit []*big.Int, obs *SolveObs) string {
	q := d.Field
	mulm := func(a, b *big.Int) *big.Int { r := new(big.Int).Mul(a, b); return r.Mod(r, q) }
	if d.IsR1CS {
		W := obs.W
		if len(W) != d.NbWires() {
			return fmt.Sprintf("solution has %d wires, system %d", len(W), d.NbWires())
		}
		if W[0].Cmp(big.NewInt(1)) != 0 {
			return "wire 0 is not ONE"
		}
		for i, x := range wit {
			if W[i+1].Cmp(new(big.Int).Mod(x, q)) != 0 {
				return fmt.Sprintf("wire %d does not carry witness value", i+1)
			}
		}
		ev := func(l []DTerm) *big.Int {
			r := new(big.Int)
			for _, t := range l {
				r.Add(r, mulm(t.C, W[t.W]))
			}
			return r.Mod(r, q)
		}
		k := 0
		for _, in := range d.Instrs {
			if in.Kind != "R1C" {
				continue
			}
			a, b, c := ev(in.L), ev(in.R), ev(in.O)
			if mulm(a, b).Cmp(c) != 0 {
				return fmt.Sprintf("R1C #%d violated by returned solution", in.CID)
			}
			if in.CID < len(obs.A) && (obs.A[in.CID].Cmp(a) != 0 || obs.B[in.CID].Cmp(b) != 0 || obs.C[in.CID].Cmp(c) != 0) {
				return fmt.Sprintf("A/B/C row %d is not L/R/O·W", in.CID)
			}
			k++
		}
		return ""
	}
	// sparse: L,R,O vectors; rows nbPub.. are the gates in instruction order
	L, R, O := obs.L, obs.R, obs.O
	n := d.NbPub + d.NbConstraints
	size := 1
	for size < n {
		size *= 2
	}
	if len(L) != size || len(R) != size || len(O) != size {
		return fmt.Sprintf("LRO size %d, expected %d", len(L), size)
	}
	val := map[int]*big.Int{}
	put := func(w int, v *big.Int) string {
		if old, ok := val[w]; ok && old.Cmp(v) != 0 {
			return fmt.Sprintf("wire %d carries two values (%s, %s)", w, old, v)
		}
		val[w] = v
		return ""
	}
	for i := 0; i < d.NbPub; i++ {
		if i < len(wit) && L[i].Cmp(new(big.Int).Mod(wit[i], q)) != 0 {
			return fmt.Sprintf("placeholder row %d does not carry public input", i)
		}
		if s := put(i, L[i]); s != "" {
			return s
		}
		if s := put(0, R[i]); s != "" {
			return s
		}
		if s := put(0, O[i]); s != "" {
			return s
		}
	}
	row := d.NbPub
	for _, in := range d.Instrs {
		var ql, qr, qo, qm, qc *big.Int
		zero, m1 := big.NewInt(0), new(big.Int).Sub(q, big.NewInt(1))
		xa, xb, xc := in.XA, in.XB, in.XC
		switch in.Kind {
		case "Sparse":
			ql, qr, qo, qm, qc = in.QL, in.QR, in.QO, in.QM, in.QC
		case "Mul":
			ql, qr, qo, qm, qc = zero, zero, m1, in.QM, zero
		case "Add":
			ql, qr, qo, qm, qc = in.QL, in.QR, m1, zero, in.QC
		case "Bool":
			ql, qr, qo, qm, qc = in.QL, zero, zero, in.QM, zero
			xb, xc = xa, 0
		default:
			continue
		}
		for _, pr := range [][2]interface{}{{xa, L[row]}, {xb, R[row]}, {xc, O[row]}} {
			if s := put(pr[0].(int), pr[1].(*big.Int)); s != "" {
				return s
			}
		}
		if !(in.Kind == "Sparse" && in.Commit) {
			t := new(big.Int).Add(mulm(ql, L[row]), mulm(qr, R[row]))
			t.Add(t, mulm(qo, O[row]))
			t.Add(t, mulm(qm, mulm(L[row], R[row])))
			t.Add(t, qc)
			if t.Mod(t, q).Sign() != 0 {
				return fmt.Sprintf("gate #%d (row %d) violated by returned solution", in.CID, row)
			}
		}
		row++
	}
	for ; row < size; row++ {
		for _, v := range []*big.Int{L[row], R[row], O[row]} {
			if s := put(0, v); s != "" {
				return "padding: " + s
			}
		}
	}
	for i, x := range wit { // secret inputs too, if they appear
		if v, ok := val[i]; ok && v.Cmp(new(big.Int).Mod(x, q)) != 0 {
			return fmt.Sprintf("wire %d does not carry witness value", i)
		}
	}
	return ""
}
