package main

import (
	"fmt"
	"math/big"
	"strings"

	"github.com/consensys/gnark-crypto/ecc"
	"github.com/consensys/gnark/frontend"
)

func init() { commands["c04"] = runC04 }

// outcome of compile+solve for a program and input/out values: "ok", "fail" (error at compile or
// solve time), "panic:<where>"
func runProg(t Target, p *Prog, inputs, outs []*big.Int, opts ...frontend.CompileOption) (string, string) {
	opts = append(opts, frontend.IgnoreUnconstrainedInputs())
	ccs, cerr := compileTarget(t, NewProgCircuit(p), opts...)
	if cerr != "" {
		if strings.HasPrefix(cerr, "panic") {
			return "panic:compile", cerr
		}
		return "fail", cerr
	}
	w, _, err := progWitness(p, t.Field, inputs, outs)
	if err != nil {
		return "harness", err.Error()
	}
	obs := SolveCapture(ccs, w, 1)
	switch obs.Class {
	case "ok":
		return "ok", ""
	case "panic":
		return "panic:solve", obs.Msg
	}
	return "fail", obs.Msg
}

// constVariant replaces the chosen input variables by constants equal to their assigned values
func constVariant(p *Prog, inputs []*big.Int, mask uint) *Prog {
	q := &Prog{NbPub: p.NbPub, NbSec: p.NbSec, Outs: p.Outs}
	for _, op := range p.Ops {
		o2 := Op{Kind: op.Kind, N: op.N}
		for _, a := range op.Args {
			if !a.Const && a.V < len(inputs) && mask&(1<<uint(a.V)) != 0 {
				o2.Args = append(o2.Args, Arg{Const: true, C: new(big.Int).Set(inputs[a.V])})
			} else {
				o2.Args = append(o2.Args, a)
			}
		}
		q.Ops = append(q.Ops, o2)
	}
	return q
}

// swapVariant reverses the operand order of commutative operations
func swapVariant(p *Prog) *Prog {
	q := &Prog{NbPub: p.NbPub, NbSec: p.NbSec, Outs: p.Outs}
	for _, op := range p.Ops {
		o2 := Op{Kind: op.Kind, N: op.N, Args: append([]Arg{}, op.Args...)}
		switch op.Kind {
		case "Add", "Mul", "Xor", "Or", "And":
			for i, j := 0, len(o2.Args)-1; i < j; i, j = i+1, j-1 {
				o2.Args[i], o2.Args[j] = o2.Args[j], o2.Args[i]
			}
		}
		q.Ops = append(q.Ops, o2)
	}
	return q
}

// documented compile-time panics (constants violating an assertion / division by constant zero)
func documentedCompilePanic(msg string) bool {
	for _, s := range []string{"div by 0", "divide by zero", "division by 0", "inverse by constant(0)", "non-boolean", "not boolean", "constant", "is not", "!=", "not equal", "different"} {
		if strings.Contains(strings.ToLower(msg), s) {
			return true
		}
	}
	return false
}

type c04Desc struct {
	Target  string   `json:"target"`
	Prog    string   `json:"prog"`
	Inputs  []string `json:"inputs"`
	Outs    []string `json:"outs"`
	Variant string   `json:"variant"`
	Obs     string   `json:"observed"`
	SpecOK  bool     `json:"spec_ok"`
	Why     string   `json:"why,omitempty"`
}

func runC04(args []string) int {
	o := parseOpts(args)
	rng := NewRNG(o.Seed)
	rep := NewReport("C04")
	rep.Rule = "seeded straight-line API programs are compiled by the real builders and solved by the real solver; the outcome (success iff every assertion holds under the documented meaning and the exposed values equal it) is compared with the independent evaluator, for the base program and its variants: inputs replaced by equal constants, commutative operands reversed, compress threshold in {2,3,300}, builders r1cs/scs, fields F_47 / BN254 / BLS12-377 / BW6-761 / BLS12-381; non-trivial = program has at least one op whose result or assertion reaches an exposed output or constraint; distinct = distinct (target, variant, program, inputs, outs)"
	fields := []Target{
		{"tiny", tinyMod, true}, {"tiny", tinyMod, false},
		{"bn254", ecc.BN254.ScalarField(), true}, {"bn254", ecc.BN254.ScalarField(), false},
		{"bls12-377", ecc.BLS12_377.ScalarField(), true}, {"bw6-761", ecc.BW6_761.ScalarField(), false},
		{"bls12-381", ecc.BLS12_381.ScalarField(), false}, {"tiny", tinyMod, true}, {"tiny", tinyMod, false},
	}
	nprog := 360
	if o.Thorough() {
		nprog = 2500
	}
	var coqCases []string
	var caseIdx []interface{}
	runCase := func(t Target, p *Prog, in []*big.Int) {
		nin := p.NbPub + p.NbSec
		vals, specOK, free, why := EvalSpec(p, t.Field, in)
		outs := make([]*big.Int, len(p.Outs))
		for i, ov := range p.Outs {
			outs[i] = vals[ov]
		}
		type variant struct {
			name string
			p    *Prog
			outs []*big.Int
			ok   bool
			opts []frontend.CompileOption
		}
		vs := []variant{{"base", p, outs, specOK, nil}}
		if len(outs) > 0 {
			bad := append([]*big.Int{}, outs...)
			j := rng.Intn(len(bad))
			bad[j] = new(big.Int).Add(bad[j], big.NewInt(1))
			bad[j].Mod(bad[j], t.Field)
			vs = append(vs, variant{"wrong-out", p, bad, false, nil})
		}
		mask := uint(1 + rng.Intn((1<<uint(nin))-1))
		vs = append(vs, variant{fmt.Sprintf("const-mask-%b", mask), constVariant(p, in, mask), outs, specOK, nil})
		vs = append(vs, variant{"swapped", swapVariant(p), outs, specOK, nil})
		if t.R1CS {
			th := []int{2, 3, 300}[rng.Intn(3)]
			vs = append(vs, variant{fmt.Sprintf("compress-%d", th), p, outs, specOK, []frontend.CompileOption{frontend.WithCompressThreshold(th)}})
		}
		for _, v := range vs {
			obs, msg := runProg(t, v.p, in, v.outs, v.opts...)
			desc := c04Desc{t.String(), v.p.String(), bigStrs(in), bigStrs(v.outs), v.name, obs, v.ok, why}
			rep.Eval(fmt.Sprintf("%s|%s|%s|%v|%v", t, v.name, v.p, in, v.outs), len(p.Ops) > 0)
			rep.Count("variant:" + strings.SplitN(v.name, "-", 2)[0])
			rep.Count("obs:" + obs)
			rep.Sample(desc)
			for _, k := range progKinds(v.p) {
				rep.Count("op:" + k)
			}
			kinds := strings.Join(progKinds(v.p), "+")
			switch {
			case obs == "harness":
				rep.Fail("harness:witness", msg, desc)
			case obs == "panic:solve":
				sig := "c04:solve-panic:" + v.name + ":" + t.String() + ":" + kinds
				if strings.HasPrefix(v.name, "compress-2") && (strings.Contains(kinds, "IsZero") || strings.Contains(kinds, "Cmp")) && strings.Contains(msg, "more than one wire") { // Cmp is built on IsZero
					sig = "c04:solve-panic:compress-2:iszero:more-than-one-wire"
				}
				rep.Fail(sig, "Solve panicked: "+msg, desc)
			case obs == "panic:compile":
				if v.ok || !documentedCompilePanic(msg) {
					sig := "c04:compile-panic:" + t.String() + ":" + kinds
					if free {
						sig = "c04:compile-panic:divunchecked-0-0:" + t.String()
					}
					rep.Fail(sig, "compile-time panic ("+msg+") although "+map[bool]string{true: "every assertion holds", false: "the panic is not a documented one"}[v.ok], desc)
				}
			case obs == "ok" && !v.ok && !free:
				rep.Fail("c04:accepts-violated:"+t.String()+":"+kinds, "Solve succeeded although "+map[bool]string{true: "the exposed output is wrong", false: why}[v.name == "wrong-out" && specOK], desc)
			case obs == "fail" && v.ok:
				sig := "c04:rejects-valid:" + t.String() + ":" + kinds
				if free {
					if strings.Contains(msg, "div by constant(0)") || strings.Contains(msg, "inverse by constant(0)") {
						break // the divisor folded to the constant 0 at compile time: documented compile error
					}
					sig = "c04:rejects-valid:divunchecked-0-0:" + t.String()
				}
				rep.Fail(sig, "compile/solve failed ("+msg+") although every assertion holds and the exposed values are the documented ones", desc)
			}
			// Coq case: Spec.v must predict the observed outcome (base + wrong-out variants, F_47 and BN254)
			if (v.name == "base" || v.name == "wrong-out" || strings.HasPrefix(v.name, "const")) && !free && (t.Name == "tiny" || t.Name == "bn254") && len(coqCases) < 1200 && !strings.HasPrefix(obs, "panic") {
				coqCases = append(coqCases, fmt.Sprintf("(%s, %s, %s, %s, %s, %s)", zlit(t.Field), coqProg(v.p), zlist(in), intlist(v.p.Outs), zlist(v.outs), coqbool(obs == "ok")))
				caseIdx = append(caseIdx, desc)
			}
		}
	}
	for pi := 0; pi < nprog; pi++ {
		t := fields[pi%len(fields)]
		cfg := GenCfg{MaxOps: 6}
		if pi%5 == 4 {
			cfg.MaxOps = 14
		}
		p := GenProg(rng, t.Field, cfg)
		nin := p.NbPub + p.NbSec
		for wi := 0; wi < 3; wi++ {
			in := make([]*big.Int, nin)
			for i := range in {
				in[i] = rng.FieldElem(t.Field)
				if wi == 1 && rng.Intn(2) == 0 {
					in[i] = big.NewInt(int64(rng.Intn(2)))
				}
				if wi == 2 {
					in[i] = big.NewInt(int64(rng.Intn(3)))
				}
			}
			runCase(t, p, in)
		}
	}
	zeroOperandProgs(runCase)
	var sb strings.Builder
	sb.WriteString("From Coq Require Import ZArith List Bool.\nFrom GnarkV Require Import Frontend.Spec Frontend.C04Cases Frontend.SemCases.\nImport ListNotations.\n")
	sb.WriteString(fmt.Sprintf("Definition cases : list c04case := %s.\n", coqlistNL(coqCases)))
	sb.WriteString("Definition mism_c04 := Eval vm_compute in c04_mismatches 0 cases.\nPrint mism_c04.\n")
	// the field-generic statement of the documented meaning (BuilderR1CSProps.sem, the one compile_sound is about)
	// must agree with Spec.v on the value trace of every program inside the modelled core
	sb.WriteString("Definition mism_c04_sem := Eval vm_compute in sem_mismatches 0 cases.\nPrint mism_c04_sem.\n")
	writeFile(o.Out, "cases_C04.v", sb.String())
	rep.CoqCases = len(coqCases)
	rep.Extra["case_index"] = caseIdx
	runBuilderTie(o, rep)
	rep.Write(o.Out)
	return 0
}

// zeroOperandProgs: every call of arity >= 2 with the constant 0 (literal, or folded from x - x) in each operand
// position and distinct variables elsewhere, every result exposed, on both builders over F_47 and BN254, for all
// input tuples over {0, 1, 2, 5}: the constant-folding branches of the builders for a zero operand (scaling by 0,
// a zero numerator, a zero accumulator) must not change the documented meaning
func zeroOperandProgs(runCase func(t Target, p *Prog, in []*big.Int)) {
	arity := map[string]int{"Add": 3, "Sub": 3, "Mul": 3, "MulAcc": 3, "Div": 2, "DivUnchecked": 2, "Select": 3, "Lookup2": 6, "Xor": 2, "Or": 2, "And": 2}
	kinds := []string{"Add", "Sub", "Mul", "MulAcc", "Div", "DivUnchecked", "Select", "Lookup2", "Xor", "Or", "And"}
	targets := []Target{{"tiny", tinyMod, true}, {"tiny", tinyMod, false}, {"bn254", ecc.BN254.ScalarField(), true}, {"bn254", ecc.BN254.ScalarField(), false}}
	vals := []int64{0, 1, 2, 5}
	for ki, k := range kinds {
		n := arity[k]
		for pos := 0; pos < n; pos++ {
			for folded := 0; folded < 2; folded++ {
				p := &Prog{NbPub: 0, NbSec: 3}
				next := 3
				zero := Arg{Const: true, C: big.NewInt(0)}
				if folded == 1 {
					p.Ops = append(p.Ops, Op{Kind: "Sub", Args: []Arg{{V: 0}, {V: 0}}})
					zero = Arg{V: next}
					next++
				}
				args := make([]Arg, n)
				for i := range args {
					args[i] = Arg{V: i % 3}
				}
				args[pos] = zero
				p.Ops = append(p.Ops, Op{Kind: k, Args: args})
				p.Outs = []int{next}
				// the result is used again, so that a wrong linear expression shows up downstream as well
				p.Ops = append(p.Ops, Op{Kind: "Add", Args: []Arg{{V: next}, {V: 1}}})
				p.Outs = append(p.Outs, next+1)
				t := targets[(ki+pos+folded)%len(targets)]
				for a := 0; a < 64; a++ {
					in := []*big.Int{big.NewInt(vals[a%4]), big.NewInt(vals[(a/4)%4]), big.NewInt(vals[(a/16)%4])}
					runCase(t, p, in)
				}
			}
		}
	}
}
