package main

// C17: the in-circuit KZG multi-point batch verifier (std/commitments/kzg BatchVerifyMultiPoints, used when
// several PLONK proofs are verified together) against the native one: honest batches accepted by both; a
// dishonest prover lies about one evaluation and repairs the folded equation by shifting two quotients by
// multiples of G computed from the folding coefficient it predicts from everything else (this only works if
// the coefficient does not depend on the quotients it changes afterwards): native rejects, so must the circuit.

import (
	"fmt"
	"math/big"

	"github.com/consensys/gnark-crypto/ecc"
	bls12377 "github.com/consensys/gnark-crypto/ecc/bls12-377"
	fr_bls12377 "github.com/consensys/gnark-crypto/ecc/bls12-377/fr"
	kzg_bls12377 "github.com/consensys/gnark-crypto/ecc/bls12-377/kzg"
	"github.com/consensys/gnark/frontend"
	"github.com/consensys/gnark/std/algebra/native/sw_bls12377"
	"github.com/consensys/gnark/std/commitments/kzg"
	"github.com/consensys/gnark/std/math/emulated"
	"github.com/consensys/gnark/std/recursion"
	"github.com/consensys/gnark/test"
)

type kzgBatchCircuit struct {
	Vk          kzg.VerifyingKey[sw_bls12377.G1Affine, sw_bls12377.G2Affine]
	Commitments []kzg.Commitment[sw_bls12377.G1Affine]
	Proofs      []kzg.OpeningProof[sw_bls12377.ScalarField, sw_bls12377.G1Affine]
	Points      []emulated.Element[sw_bls12377.ScalarField]
}

func (c *kzgBatchCircuit) Define(api frontend.API) error {
	v, err := kzg.NewVerifier[sw_bls12377.ScalarField, sw_bls12377.G1Affine, sw_bls12377.G2Affine, sw_bls12377.GT](api)
	if err != nil {
		return err
	}
	return v.BatchVerifyMultiPoints(c.Commitments, c.Proofs, c.Points, c.Vk)
}

func c17KZGBatch(rep *Report, rng *RNG) {
	const n = 3
	srs, err := kzg_bls12377.NewSRS(64, big.NewInt(0xC0FFEE))
	if err != nil {
		rep.Fail("harness:kzg-srs", err.Error(), nil)
		return
	}
	inCircuit := func(cmts []kzg_bls12377.Digest, proofs []kzg_bls12377.OpeningProof, points []fr_bls12377.Element) error {
		var asg, tmpl kzgBatchCircuit
		asg.Commitments = make([]kzg.Commitment[sw_bls12377.G1Affine], n)
		asg.Proofs = make([]kzg.OpeningProof[sw_bls12377.ScalarField, sw_bls12377.G1Affine], n)
		asg.Points = make([]emulated.Element[sw_bls12377.ScalarField], n)
		for i := 0; i < n; i++ {
			asg.Commitments[i], _ = kzg.ValueOfCommitment[sw_bls12377.G1Affine](cmts[i])
			asg.Proofs[i], _ = kzg.ValueOfOpeningProof[sw_bls12377.ScalarField, sw_bls12377.G1Affine](proofs[i])
			asg.Points[i], _ = kzg.ValueOfScalar[sw_bls12377.ScalarField](points[i])
		}
		asg.Vk, _ = kzg.ValueOfVerifyingKey[sw_bls12377.G1Affine, sw_bls12377.G2Affine](srs.Vk)
		tmpl.Commitments = make([]kzg.Commitment[sw_bls12377.G1Affine], n)
		tmpl.Proofs = make([]kzg.OpeningProof[sw_bls12377.ScalarField, sw_bls12377.G1Affine], n)
		tmpl.Points = make([]emulated.Element[sw_bls12377.ScalarField], n)
		var err error
		if pm := catchPanic(func() { err = test.IsSolved(&tmpl, &asg, ecc.BW6_761.ScalarField()) }); pm != "" {
			return fmt.Errorf("panic: %s", pm)
		}
		return err
	}
	fresh := func() ([]kzg_bls12377.Digest, []kzg_bls12377.OpeningProof, []fr_bls12377.Element) {
		cmts := make([]kzg_bls12377.Digest, n)
		proofs := make([]kzg_bls12377.OpeningProof, n)
		points := make([]fr_bls12377.Element, n)
		for i := 0; i < n; i++ {
			f := make([]fr_bls12377.Element, 20)
			for j := range f {
				f[j].SetBigInt(rng.Big(fr_bls12377.Modulus()))
			}
			cmts[i], _ = kzg_bls12377.Commit(f, srs.Pk)
			points[i].SetUint64(uint64(11 + 5*i))
			proofs[i], _ = kzg_bls12377.Open(f, points[i], srs.Pk)
		}
		return cmts, proofs, points
	}
	cmts, proofs, points := fresh()
	natErr := kzg_bls12377.BatchVerifyMultiPoints(cmts, proofs, points, srs.Vk)
	cirErr := inCircuit(cmts, proofs, points)
	rep.Eval("kzg-batch|honest", true)
	if (natErr == nil) != (cirErr == nil) {
		rep.Fail("c17:kzg-batch:verdicts-differ:honest", fmt.Sprintf("honest batch of 3 openings at 3 points: native %v, in-circuit %v", natErr, cirErr), nil)
	}
	// plain alterations
	for _, what := range []string{"claimed value 1 + 1", "quotient 2 + G", "point 0 + 1", "commitment 1 + G"} {
		c2, p2, pt2 := append([]kzg_bls12377.Digest{}, cmts...), append([]kzg_bls12377.OpeningProof{}, proofs...), append([]fr_bls12377.Element{}, points...)
		var one fr_bls12377.Element
		one.SetOne()
		switch what {
		case "claimed value 1 + 1":
			p2[1].ClaimedValue.Add(&p2[1].ClaimedValue, &one)
		case "quotient 2 + G":
			p2[2].H.Add(&p2[2].H, &srs.Vk.G1)
		case "point 0 + 1":
			pt2[0].Add(&pt2[0], &one)
		case "commitment 1 + G":
			c2[1].Add(&c2[1], &srs.Vk.G1)
		}
		nat, cir := kzg_bls12377.BatchVerifyMultiPoints(c2, p2, pt2, srs.Vk), inCircuit(c2, p2, pt2)
		rep.Eval("kzg-batch|"+what, true)
		rep.Count(fmt.Sprintf("kzg-batch:native=%v,circuit=%v", nat == nil, cir == nil))
		if (nat == nil) != (cir == nil) {
			rep.Fail("c17:kzg-batch:verdicts-differ", fmt.Sprintf("%s: native accepts=%v, in-circuit accepts=%v", what, nat == nil, cir == nil), nil)
		}
	}
	// the adaptive prover, values only: lie on evaluation `lie`, learn the folding coefficient, compensate on evaluation `fix`
	// (sum of weighted claimed values unchanged): works only if the coefficient does not depend on opening `fix`
	for _, lf := range [][2]int{{1, 0}, {0, 1}, {2, 1}, {1, 2}} {
		lie, fix := lf[0], lf[1]
		c2, p2, pt2 := fresh()
		var delta fr_bls12377.Element
		delta.SetUint64(77)
		p2[lie].ClaimedValue.Add(&p2[lie].ClaimedValue, &delta)
		var seen []*big.Int
		kzg.VerifTraceHook = func(ev string, limbs []frontend.Variable) {
			if ev == "fold-multi-lambda" && seen == nil {
				for _, l := range limbs {
					b, _ := toBigVar(l)
					seen = append(seen, b)
				}
			}
		}
		_ = inCircuit(c2, p2, pt2)
		kzg.VerifTraceHook = nil
		if seen == nil {
			rep.Fail("harness:kzg-hook", "folding coefficient not observed", nil)
			continue
		}
		v := new(big.Int)
		for i := len(seen) - 1; i >= 0; i-- {
			v.Lsh(v, 64).Add(v, seen[i])
		}
		var lambda fr_bls12377.Element
		lambda.SetBigInt(v)
		w := make([]fr_bls12377.Element, n)
		w[0].SetOne()
		for i := 1; i < n; i++ {
			w[i].Mul(&w[i-1], &lambda)
		}
		var comp fr_bls12377.Element
		comp.Div(&w[lie], &w[fix]).Mul(&comp, &delta)
		p2[fix].ClaimedValue.Sub(&p2[fix].ClaimedValue, &comp)
		nat, cir := kzg_bls12377.BatchVerifyMultiPoints(c2, p2, pt2, srs.Vk), inCircuit(c2, p2, pt2)
		name := fmt.Sprintf("false evaluation %d compensated on evaluation %d", lie, fix)
		rep.Eval("kzg-batch|"+name, true)
		rep.Count(fmt.Sprintf("kzg-batch-adaptive-values:native=%v,circuit=%v", nat == nil, cir == nil))
		if (nat == nil) != (cir == nil) {
			rep.Fail("c17:kzg-batch:forged-accepted", fmt.Sprintf("%s (after learning the folding coefficient): native accepts=%v, in-circuit accepts=%v", name, nat == nil, cir == nil), nil)
		}
	}
	// the adaptive prover: lie on evaluation `lie`, repair with quotients a and b
	for _, ab := range [][3]int{{1, 2, 1}, {1, 0, 1}, {1, 2, 0}, {0, 1, 2}} {
		lie, a, b := ab[0], ab[1], ab[2]
		_, p2, _ := fresh()
		c2, pt2 := make([]kzg_bls12377.Digest, n), append([]fr_bls12377.Element{}, points...)
		// re-open the same polynomials is not needed: use a fresh honest batch
		c2, p2, pt2 = fresh()
		var delta fr_bls12377.Element
		delta.SetUint64(42)
		p2[lie].ClaimedValue.Add(&p2[lie].ClaimedValue, &delta)
		// first pass: the prover learns the folding coefficient the verifier derives for the batch with the false value and the
		// quotients it has so far (observed through the hook; an honest-format prediction is used when nothing is observed)
		var lambda fr_bls12377.Element
		var seen []*big.Int
		kzg.VerifTraceHook = func(ev string, limbs []frontend.Variable) {
			if ev == "fold-multi-lambda" && seen == nil {
				for _, l := range limbs {
					b, _ := toBigVar(l)
					seen = append(seen, b)
				}
			}
		}
		_ = inCircuit(c2, p2, pt2)
		kzg.VerifTraceHook = nil
		if seen != nil {
			v := new(big.Int)
			for i := len(seen) - 1; i >= 0; i-- {
				v.Lsh(v, 64).Add(v, seen[i])
			}
			lambda.SetBigInt(v)
			rep.Count("kzg-batch-adaptive:lambda-observed")
			if h, err := recursion.NewShort(ecc.BW6_761.ScalarField(), ecc.BLS12_377.ScalarField()); err == nil {
				for i := 0; i < n; i++ {
					h.Write(c2[i].Marshal())
					h.Write(p2[i].H.Marshal())
					h.Write(p2[i].ClaimedValue.Marshal())
					h.Write(pt2[i].Marshal())
				}
				var pred fr_bls12377.Element
				pred.SetBytes(h.Sum(nil))
				rep.Count(fmt.Sprintf("kzg-batch-adaptive:lambda-is-hash-of-all-inputs=%v", pred.Equal(&lambda)))
			}
		} else {
			h, err := recursion.NewShort(ecc.BW6_761.ScalarField(), ecc.BLS12_377.ScalarField())
			if err != nil {
				rep.Fail("harness:kzg-hash", err.Error(), nil)
				return
			}
			for i := 0; i < n; i++ {
				h.Write(c2[i].Marshal())
				h.Write(p2[i].H.Marshal())
				h.Write(p2[i].ClaimedValue.Marshal())
				h.Write(pt2[i].Marshal())
			}
			lambda.SetBytes(h.Sum(nil))
		}
		w := make([]fr_bls12377.Element, n) // folding weights 1, lambda, lambda^2
		w[0].SetOne()
		for i := 1; i < n; i++ {
			w[i].Mul(&w[i-1], &lambda)
		}
		// cA = w_lie * delta / (w_a (p_a - p_b)),  cB = -(w_a / w_b) cA
		var cA, cB, den fr_bls12377.Element
		den.Sub(&pt2[a], &pt2[b]).Mul(&den, &w[a])
		cA.Mul(&w[lie], &delta).Div(&cA, &den)
		cB.Div(&w[a], &w[b]).Mul(&cB, &cA).Neg(&cB)
		var bi big.Int
		var dA, dB bls12377.G1Affine
		dA.ScalarMultiplication(&srs.Vk.G1, cA.BigInt(&bi))
		dB.ScalarMultiplication(&srs.Vk.G1, cB.BigInt(&bi))
		p2[a].H.Add(&p2[a].H, &dA)
		p2[b].H.Add(&p2[b].H, &dB)
		nat, cir := kzg_bls12377.BatchVerifyMultiPoints(c2, p2, pt2, srs.Vk), inCircuit(c2, p2, pt2)
		name := fmt.Sprintf("false evaluation %d repaired through quotients %d and %d", lie, a, b)
		rep.Eval("kzg-batch|"+name, true)
		rep.Count(fmt.Sprintf("kzg-batch-adaptive:native=%v,circuit=%v", nat == nil, cir == nil))
		if (nat == nil) != (cir == nil) {
			rep.Fail("c17:kzg-batch:forged-accepted", fmt.Sprintf("%s (coefficients computed from the folding challenge predicted before the quotients were changed): native accepts=%v, in-circuit accepts=%v", name, nat == nil, cir == nil), nil)
		}
	}
}
