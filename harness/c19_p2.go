package main

// C19: the GKR-backed Poseidon2 compressor (std/permutation/poseidon2/gkr-poseidon2, BLS12-377): its outputs equal the
// native compression, wrong outputs are rejected, and the commitment seeding the GKR verifier's Fiat-Shamir transcript
// covers every input AND every output (a seed the prover knows before choosing the outputs lets it pick outputs whose
// multilinear extension agrees with the true one at the first challenge).

import (
	"fmt"
	"math/big"

	"github.com/consensys/gnark-crypto/ecc"
	fr377 "github.com/consensys/gnark-crypto/ecc/bls12-377/fr"
	p2native "github.com/consensys/gnark-crypto/ecc/bls12-377/fr/poseidon2"
	"github.com/consensys/gnark/constraint"
	"github.com/consensys/gnark/frontend"
	"github.com/consensys/gnark/frontend/cs/r1cs"
	gkrp2 "github.com/consensys/gnark/std/permutation/poseidon2/gkr-poseidon2"
	"github.com/consensys/gnark/test"
)

type p2gkrCircuit struct {
	Ins  [][2]frontend.Variable
	Outs []frontend.Variable `gnark:",public"`
}

func (c *p2gkrCircuit) Define(api frontend.API) error {
	g := gkrp2.NewGkrCompressions(api)
	for i := range c.Ins {
		api.AssertIsEqual(g.Compress(c.Ins[i][0], c.Ins[i][1]), c.Outs[i])
	}
	return nil
}

func c19Poseidon2(rep *Report, rng *RNG) {
	gkrp2.RegisterGkrSolverOptions(ecc.BLS12_377)
	q := ecc.BLS12_377.ScalarField()
	params := p2native.GetDefaultParameters()
	perm := p2native.NewPermutation(2, params.NbFullRounds, params.NbPartialRounds)
	for _, n := range []int{2, 3} {
		mk := func() *p2gkrCircuit { return &p2gkrCircuit{Ins: make([][2]frontend.Variable, n), Outs: make([]frontend.Variable, n)} }
		asg := mk()
		for i := 0; i < n; i++ {
			var x [2]fr377.Element
			a, b := rng.FieldElem(q), rng.FieldElem(q)
			x[0].SetBigInt(a)
			x[1].SetBigInt(b)
			y0 := x[1]
			if err := perm.Permutation(x[:]); err != nil {
				rep.Fail("harness:poseidon2", err.Error(), nil)
				return
			}
			x[1].Add(&x[1], &y0)
			asg.Ins[i] = [2]frontend.Variable{a, b}
			asg.Outs[i] = x[1].BigInt(new(big.Int))
		}
		desc := c19Desc{NInst: n, Mode: "gkr-poseidon2 / bls12-377"}
		var err error
		pm := catchPanic(func() { err = test.IsSolved(mk(), asg, q) })
		rep.Eval(fmt.Sprintf("gkr-poseidon2|%d|engine", n), true)
		if pm != "" || err != nil {
			rep.Fail("c19:gkr-poseidon2:rejects-native-compression", "the GKR Poseidon2 compressor rejects the native compression values: "+pm+shortErr(err), desc)
		}
		wrong := mk()
		wrong.Ins = asg.Ins
		wrong.Outs = append([]frontend.Variable{}, asg.Outs...)
		wrong.Outs[n-1] = new(big.Int).Add(asg.Outs[n-1].(*big.Int), big.NewInt(1))
		pm = catchPanic(func() { err = test.IsSolved(mk(), wrong, q) })
		rep.Eval(fmt.Sprintf("gkr-poseidon2|%d|engine-wrong", n), true)
		if pm == "" && err == nil {
			rep.Fail("c19:gkr-poseidon2:accepts-wrong-output", "the GKR Poseidon2 compressor accepts an output that is not the compression", desc)
		}
		// compiled: the seed commitment covers inputs and outputs
		ccs, cerr := frontend.Compile(q, r1cs.NewBuilder[constraint.U64], mk())
		rep.Eval(fmt.Sprintf("gkr-poseidon2|%d|seed", n), true)
		if cerr != nil {
			rep.Fail("c19:gkr-poseidon2:compile", cerr.Error(), desc)
			continue
		}
		committed := 0
		if ci, ok := sysOf(ccs).CommitmentInfo.(constraint.Groth16Commitments); ok {
			for _, c := range ci {
				committed += len(c.PrivateCommitted) + len(c.PublicAndCommitmentCommitted)
			}
		}
		rep.Count(fmt.Sprintf("gkr-poseidon2:committed-wires=%d/instances=%d", committed, n))
		if committed < 3*n {
			rep.Fail("c19:gkr-poseidon2:seed-misses-values", fmt.Sprintf("the commitment seeding the GKR transcript covers %d wires for %d compressions: inputs (2 per compression) and outputs (1 per compression) must all be committed", committed, n), desc)
		}
	}
}
