package main

// C16: curve and signature gadgets match native results, exceptional cases included.

import (
	"crypto/ecdsa"
	"crypto/elliptic"
	"fmt"
	"math/big"
	"os"
	"strings"
	"sync"
	"time"

	"github.com/consensys/gnark-crypto/ecc"
	bn254c "github.com/consensys/gnark-crypto/ecc/bn254"
	bn254fr "github.com/consensys/gnark-crypto/ecc/bn254/fr"
	tedid "github.com/consensys/gnark-crypto/ecc/twistededwards"
	"github.com/consensys/gnark/constraint/solver"
	"github.com/consensys/gnark/frontend"
	"github.com/consensys/gnark/std/algebra/algopts"
	"github.com/consensys/gnark/std/algebra/emulated/sw_bn254"
	"github.com/consensys/gnark/std/algebra/emulated/sw_emulated"
	"github.com/consensys/gnark/std/algebra/native/twistededwards"
	"github.com/consensys/gnark/std/evmprecompiles"
	"github.com/consensys/gnark/std/math/emulated"
	"github.com/consensys/gnark/std/math/emulated/emparams"
	gecdsa "github.com/consensys/gnark/std/signature/ecdsa"
	"github.com/consensys/gnark/test"
)

func init() { commands["c16"] = runC16 }

// ---- independent reference: affine short Weierstrass arithmetic over big integers (nil = infinity)
type wpt struct{ x, y *big.Int }
type wcurve struct {
	name       string
	p, a, b, n *big.Int
	g          *wpt
}

func (c *wcurve) mod(x *big.Int) *big.Int { return x.Mod(x, c.p) }
func (c *wcurve) add(P, Q *wpt) *wpt {
	if P == nil {
		return Q
	}
	if Q == nil {
		return P
	}
	var l *big.Int
	if P.x.Cmp(Q.x) == 0 {
		if new(big.Int).Mod(new(big.Int).Add(P.y, Q.y), c.p).Sign() == 0 {
			return nil
		}
		num := new(big.Int).Mul(P.x, P.x)
		num.Mul(num, big.NewInt(3)).Add(num, c.a)
		den := new(big.Int).ModInverse(new(big.Int).Mod(new(big.Int).Lsh(P.y, 1), c.p), c.p)
		l = c.mod(num.Mul(num, den))
	} else {
		num := new(big.Int).Sub(Q.y, P.y)
		den := new(big.Int).ModInverse(c.mod(new(big.Int).Sub(Q.x, P.x)), c.p)
		l = c.mod(num.Mul(num, den))
	}
	x3 := new(big.Int).Mul(l, l)
	x3.Sub(x3, P.x).Sub(x3, Q.x)
	c.mod(x3)
	y3 := new(big.Int).Sub(P.x, x3)
	y3.Mul(y3, l).Sub(y3, P.y)
	c.mod(y3)
	return &wpt{x3, y3}
}
func (c *wcurve) neg(P *wpt) *wpt {
	if P == nil {
		return nil
	}
	return &wpt{new(big.Int).Set(P.x), c.mod(new(big.Int).Neg(P.y))}
}
func (c *wcurve) mul(P *wpt, k *big.Int) *wpt {
	var R *wpt
	kk := new(big.Int).Set(k)
	if kk.Sign() < 0 {
		kk.Neg(kk)
		P = c.neg(P)
	}
	for i := kk.BitLen() - 1; i >= 0; i-- {
		R = c.add(R, R)
		if kk.Bit(i) == 1 {
			R = c.add(R, P)
		}
	}
	return R
}
func coords(P *wpt) (*big.Int, *big.Int) {
	if P == nil {
		return big.NewInt(0), big.NewInt(0)
	}
	return P.x, P.y
}

func curveFromParams(name string, cp sw_emulated.CurveParams, q, n *big.Int) *wcurve {
	return &wcurve{name: name, p: q, a: cp.A, b: cp.B, n: n, g: &wpt{cp.Gx, cp.Gy}}
}

// ---- generic circuit over an emulated short Weierstrass curve
type swCircuit[B, S emulated.FieldParams] struct {
	P, Q     sw_emulated.AffinePoint[B]
	S1, S2   emulated.Element[S]
	R        sw_emulated.AffinePoint[B] `gnark:",public"`
	op       string
	complete bool
	got      *[2]*big.Int // result observed in the test engine
}

func (c *swCircuit[B, S]) Define(api frontend.API) error {
	cr, err := sw_emulated.New[B, S](api, sw_emulated.GetCurveParams[B]())
	if err != nil {
		return err
	}
	var opts []algopts.AlgebraOption
	if c.complete {
		opts = append(opts, algopts.WithCompleteArithmetic())
	}
	var res *sw_emulated.AffinePoint[B]
	switch c.op {
	case "Add":
		res = cr.Add(&c.P, &c.Q)
	case "AddUnified":
		res = cr.AddUnified(&c.P, &c.Q)
	case "Double":
		res = cr.AddUnified(&c.P, &c.P)
	case "Neg":
		res = cr.Neg(&c.P)
	case "ScalarMul":
		res = cr.ScalarMul(&c.P, &c.S1, opts...)
	case "ScalarMulBase":
		res = cr.ScalarMulBase(&c.S1, opts...)
	case "JointScalarMulBase":
		res = cr.JointScalarMulBase(&c.P, &c.S1, &c.S2, opts...)
	case "MultiScalarMul":
		res, err = cr.MultiScalarMul([]*sw_emulated.AffinePoint[B]{&c.P, &c.Q}, []*emulated.Element[S]{&c.S1, &c.S2}, opts...)
		if err != nil {
			return err
		}
	case "AssertIsOnCurve":
		cr.AssertIsOnCurve(&c.P)
		res = &c.P
	}
	if c.got != nil {
		f, _ := emulated.NewField[B](api)
		xr, yr := f.Reduce(&res.X), f.Reduce(&res.Y)
		var fp B
		if xl, ok := limbVals(xr); ok {
			if yl, ok2 := limbVals(yr); ok2 {
				c.got[0] = new(big.Int).Mod(recompLimbs(xl, fp.BitsPerLimb()), fp.Modulus())
				c.got[1] = new(big.Int).Mod(recompLimbs(yl, fp.BitsPerLimb()), fp.Modulus())
			}
		}
	}
	cr.AssertIsEqual(res, &c.R)
	return nil
}

type swJob struct {
	curve    string
	op       string
	complete bool
	P, Q     *wpt
	s1, s2   *big.Int
	want     *wpt // nil = infinity
	expectOK bool
	class    string
	// results
	cls, msg string
	got      [2]*big.Int
}

type swRunner struct {
	wc  *wcurve
	run func(j *swJob)
}

func rawScalar[S emulated.FieldParams](v *big.Int) emulated.Element[S] {
	var s S
	if v.Cmp(s.Modulus()) < 0 {
		return emulated.ValueOf[S](v)
	}
	return rawElement[S](decompLimbs(v, s.BitsPerLimb(), int(s.NbLimbs())))
}

func mkSwRunner[B, S emulated.FieldParams](name string) swRunner {
	var b B
	var sc S
	cp := sw_emulated.GetCurveParams[B]()
	wc := curveFromParams(name, cp, b.Modulus(), sc.Modulus())
	pt := func(P *wpt) sw_emulated.AffinePoint[B] {
		x, y := coords(P)
		return sw_emulated.AffinePoint[B]{X: emulated.ValueOf[B](x), Y: emulated.ValueOf[B](y)}
	}
	return swRunner{wc: wc, run: func(j *swJob) {
		tmpl := &swCircuit[B, S]{op: j.op, complete: j.complete, got: &j.got}
		asg := &swCircuit[B, S]{P: pt(j.P), Q: pt(j.Q), R: pt(j.want)}
		s1, s2 := j.s1, j.s2
		if s1 == nil {
			s1 = big.NewInt(1)
		}
		if s2 == nil {
			s2 = big.NewInt(1)
		}
		asg.S1, asg.S2 = rawScalar[S](s1), rawScalar[S](s2)
		var err error
		pm := catchPanic(func() { err = test.IsSolved(tmpl, asg, bnQ) })
		switch {
		case pm != "":
			j.cls, j.msg = "panic", pm
		case err != nil:
			j.cls, j.msg = "unsat", shortErr(err)
		default:
			j.cls = "ok"
		}
	}}
}

// ---- twisted Edwards (native)
type edCircuit struct {
	P, Q   twistededwards.Point
	S1, S2 frontend.Variable
	R      twistededwards.Point `gnark:",public"`
	op     string
	id     tedid.ID
}

func (c *edCircuit) Define(api frontend.API) error {
	cr, err := twistededwards.NewEdCurve(api, c.id)
	if err != nil {
		return err
	}
	var res twistededwards.Point
	switch c.op {
	case "Add":
		res = cr.Add(c.P, c.Q)
	case "Double":
		res = cr.Double(c.P)
	case "Neg":
		res = cr.Neg(c.P)
	case "ScalarMul":
		res = cr.ScalarMul(c.P, c.S1)
	case "DoubleBaseScalarMul":
		res = cr.DoubleBaseScalarMul(c.P, c.Q, c.S1, c.S2)
	case "AssertIsOnCurve":
		cr.AssertIsOnCurve(c.P)
		res = c.P
	}
	api.AssertIsEqual(res.X, c.R.X)
	api.AssertIsEqual(res.Y, c.R.Y)
	return nil
}

type edRef struct{ p, a, d *big.Int }

func (e *edRef) add(x1, y1, x2, y2 *big.Int) (*big.Int, *big.Int) {
	m := func(x *big.Int) *big.Int { return x.Mod(x, e.p) }
	x1y2 := new(big.Int).Mul(x1, y2)
	y1x2 := new(big.Int).Mul(y1, x2)
	y1y2 := new(big.Int).Mul(y1, y2)
	x1x2 := new(big.Int).Mul(x1, x2)
	t := m(new(big.Int).Mul(m(new(big.Int).Mul(e.d, m(new(big.Int).Set(x1x2)))), m(new(big.Int).Set(y1y2))))
	nx := m(new(big.Int).Add(x1y2, y1x2))
	ny := m(new(big.Int).Sub(y1y2, new(big.Int).Mul(e.a, x1x2)))
	dx := new(big.Int).ModInverse(m(new(big.Int).Add(big.NewInt(1), t)), e.p)
	dy := new(big.Int).ModInverse(m(new(big.Int).Sub(big.NewInt(1), t)), e.p)
	return m(nx.Mul(nx, dx)), m(ny.Mul(ny, dy))
}
func (e *edRef) mul(x, y, k *big.Int) (*big.Int, *big.Int) {
	rx, ry := big.NewInt(0), big.NewInt(1)
	for i := k.BitLen() - 1; i >= 0; i-- {
		rx, ry = e.add(rx, ry, rx, ry)
		if k.Bit(i) == 1 {
			rx, ry = e.add(rx, ry, x, y)
		}
	}
	return rx, ry
}

// ---- ECDSA
type ecdsaCircuit[B, S emulated.FieldParams] struct {
	Sig gecdsa.Signature[S]
	Msg emulated.Element[S]
	Pub gecdsa.PublicKey[B, S]
}

func (c *ecdsaCircuit[B, S]) Define(api frontend.API) error {
	c.Pub.Verify(api, sw_emulated.GetCurveParams[B](), &c.Msg, &c.Sig)
	return nil
}

// ---- EVM precompiles
type ecaddCircuit struct {
	P, Q sw_emulated.AffinePoint[emparams.BN254Fp]
	R    sw_emulated.AffinePoint[emparams.BN254Fp] `gnark:",public"`
	got  *[2]*big.Int
}

func (c *ecaddCircuit) Define(api frontend.API) error {
	cr, err := sw_emulated.New[emparams.BN254Fp, emparams.BN254Fr](api, sw_emulated.GetBN254Params())
	if err != nil {
		return err
	}
	res := evmprecompiles.ECAdd(api, &c.P, &c.Q)
	if c.got != nil {
		f, _ := emulated.NewField[emparams.BN254Fp](api)
		xr, yr := f.Reduce(&res.X), f.Reduce(&res.Y)
		var fp emparams.BN254Fp
		if xl, ok := limbVals(xr); ok {
			if yl, ok2 := limbVals(yr); ok2 {
				c.got[0] = new(big.Int).Mod(recompLimbs(xl, 64), fp.Modulus())
				c.got[1] = new(big.Int).Mod(recompLimbs(yl, 64), fp.Modulus())
			}
		}
	}
	cr.AssertIsEqual(res, &c.R)
	return nil
}

type ecmulCircuit struct {
	P sw_emulated.AffinePoint[emparams.BN254Fp]
	U emulated.Element[emparams.BN254Fr]
	R sw_emulated.AffinePoint[emparams.BN254Fp] `gnark:",public"`
}

func (c *ecmulCircuit) Define(api frontend.API) error {
	cr, err := sw_emulated.New[emparams.BN254Fp, emparams.BN254Fr](api, sw_emulated.GetBN254Params())
	if err != nil {
		return err
	}
	res := evmprecompiles.ECMul(api, &c.P, &c.U)
	cr.AssertIsEqual(res, &c.R)
	return nil
}

type pairCircuit struct {
	P [2]sw_bn254.G1Affine
	Q [2]sw_bn254.G2Affine
}

func (c *pairCircuit) Define(api frontend.API) error {
	pr, err := sw_bn254.NewPairing(api)
	if err != nil {
		return err
	}
	return pr.PairingCheck([]*sw_bn254.G1Affine{&c.P[0], &c.P[1]}, []*sw_bn254.G2Affine{&c.Q[0], &c.Q[1]})
}

type c16Desc struct {
	Curve  string `json:"curve"`
	Op     string `json:"op"`
	Class  string `json:"class"`
	Detail string `json:"detail,omitempty"`
}

func cubeRootOfUnity(p *big.Int) *big.Int {
	if new(big.Int).Mod(p, big.NewInt(3)).Cmp(big.NewInt(1)) != 0 {
		return nil
	}
	e := new(big.Int).Div(new(big.Int).Sub(p, big.NewInt(1)), big.NewInt(3))
	for g := int64(2); g < 50; g++ {
		z := new(big.Int).Exp(big.NewInt(g), e, p)
		if z.Cmp(big.NewInt(1)) != 0 {
			return z
		}
	}
	return nil
}

func runC16(args []string) int {
	o := parseOpts(args)
	rng := NewRNG(o.Seed)
	rep := NewReport("C16")
	rep.Rule = "emulated short Weierstrass curves (secp256k1, P-256, BN254 G1, BLS12-381 G1; thorough: P-384, BW6-761) in the test engine against an independent big-integer group law (cross-checked with crypto/elliptic and gnark-crypto): Add / Double / Neg on generic points, AddUnified on every point class (generic, P=Q, P=-Q, infinity left / right / both, the pair (x,y),(zeta x,-y) on j=0 curves), ScalarMul / ScalarMulBase / JointScalarMulBase / MultiScalarMul with scalars 1, 2, r-1, random and — with complete arithmetic — 0, r, r+1, infinity operands; wrong results rejected; the coordinates returned by AddUnified are observed and compared with the Gallina transcription and the Gallina group law over Z mod p; twisted Edwards (BN254, BLS12-381 companions): Add / Double / Neg / ScalarMul / DoubleBaseScalarMul incl. the identity and low-order points; ECDSA secp256k1 and P-256 (valid, and altered message / r / s / key rejected; cross-checked with crypto/ecdsa); EVM ECAdd / ECMul conventions; one BN254 pairing equation valid and invalid; forged GLV decomposition hints; non-trivial = every job; distinct as counted"
	runners := []swRunner{
		mkSwRunner[emparams.Secp256k1Fp, emparams.Secp256k1Fr]("secp256k1"),
		mkSwRunner[emparams.P256Fp, emparams.P256Fr]("P-256"),
		mkSwRunner[emparams.BN254Fp, emparams.BN254Fr]("bn254"),
		mkSwRunner[emparams.BLS12381Fp, emparams.BLS12381Fr]("bls12-381"),
	}
	if o.Thorough() {
		runners = append(runners, mkSwRunner[emparams.P384Fp, emparams.P384Fr]("P-384"), mkSwRunner[emparams.BW6761Fp, emparams.BW6761Fr]("bw6-761"))
	}
	// cross-check of the reference group law with crypto/elliptic on P-256
	{
		wc := runners[1].wc
		k := rng.Big(wc.n)
		R := wc.mul(wc.g, k)
		ex, ey := elliptic.P256().ScalarBaseMult(k.Bytes())
		rep.Eval("reference-crosscheck|P-256", true)
		if R == nil || R.x.Cmp(ex) != 0 || R.y.Cmp(ey) != 0 {
			rep.Fail("harness:reference", "big-integer group law disagrees with crypto/elliptic", nil)
		}
		var g bn254c.G1Affine
		kk := rng.Big(runners[2].wc.n)
		g.ScalarMultiplicationBase(kk)
		R2 := runners[2].wc.mul(runners[2].wc.g, kk)
		if R2 == nil || R2.x.Cmp(g.X.BigInt(new(big.Int))) != 0 || R2.y.Cmp(g.Y.BigInt(new(big.Int))) != 0 {
			rep.Fail("harness:reference", "big-integer group law disagrees with gnark-crypto bn254", nil)
		}
	}
	var edCases []string
	var jobs []*swJob
	var jobRunner []int
	add := func(ri int, j *swJob) {
		j.curve = runners[ri].wc.name
		jobs = append(jobs, j)
		jobRunner = append(jobRunner, ri)
	}
	for ri, ru := range runners {
		wc := ru.wc
		rp := func() *wpt { return wc.mul(wc.g, new(big.Int).Add(rng.Big(wc.n), big.NewInt(2))) }
		P, Q := rp(), rp()
		// incomplete formulas on their domain
		add(ri, &swJob{op: "Add", P: P, Q: Q, want: wc.add(P, Q), expectOK: true, class: "generic"})
		add(ri, &swJob{op: "Neg", P: P, Q: Q, want: wc.neg(P), expectOK: true, class: "generic"})
		add(ri, &swJob{op: "Add", P: P, Q: Q, want: wc.add(P, P), expectOK: false, class: "wrong-result"})
		// AddUnified on every class
		classes := []struct {
			name string
			P, Q *wpt
		}{{"generic", P, Q}, {"P=Q", P, P}, {"P=-Q", P, wc.neg(P)}, {"inf+Q", nil, Q}, {"P+inf", P, nil}, {"inf+inf", nil, nil}}
		if z := cubeRootOfUnity(wc.p); z != nil && wc.a.Sign() == 0 {
			Z := &wpt{new(big.Int).Mod(new(big.Int).Mul(z, P.x), wc.p), new(big.Int).Mod(new(big.Int).Neg(P.y), wc.p)}
			classes = append(classes, struct {
				name string
				P, Q *wpt
			}{"(x,y)+(zeta x,-y)", P, Z})
		}
		// points with a zero coordinate are ordinary points, not the point at infinity (0,0): x = 0 exists when b is a square
		// (P-256, P-384), and (0,0) itself must never be confused with them
		if y0 := new(big.Int).ModSqrt(wc.b, wc.p); y0 != nil && y0.Sign() != 0 {
			P0 := &wpt{big.NewInt(0), y0}
			for _, cl := range []struct {
				name string
				P, Q *wpt
			}{{"(0,sqrt b)+Q", P0, Q}, {"P+(0,sqrt b)", P, P0}, {"(0,sqrt b) doubled", P0, P0}, {"(0,sqrt b)+(0,-sqrt b)", P0, wc.neg(P0)}, {"(0,sqrt b)+inf", P0, nil}} {
				classes = append(classes, cl)
			}
		}
		for _, cl := range classes {
			add(ri, &swJob{op: "AddUnified", P: cl.P, Q: cl.Q, want: wc.add(cl.P, cl.Q), expectOK: true, class: cl.name})
		}
		add(ri, &swJob{op: "AddUnified", P: P, Q: Q, want: wc.add(P, P), expectOK: false, class: "wrong-result"})
		add(ri, &swJob{op: "AssertIsOnCurve", P: &wpt{P.x, new(big.Int).Mod(new(big.Int).Add(P.y, big.NewInt(1)), wc.p)}, Q: Q, want: P, expectOK: false, class: "off-curve"})
		// scalar multiplications
		scal := map[string]*big.Int{"2": big.NewInt(2), "r-1": new(big.Int).Sub(wc.n, big.NewInt(1)), "random": rng.Big(wc.n), "1": big.NewInt(1)}
		for _, sn := range []string{"1", "2", "r-1", "random"} {
			if !o.Thorough() && sn == "2" && ri != 0 {
				continue
			}
			s := scal[sn]
			add(ri, &swJob{op: "ScalarMul", P: P, Q: Q, s1: s, want: wc.mul(P, s), expectOK: true, class: "s=" + sn})
		}
		add(ri, &swJob{op: "ScalarMul", P: P, Q: Q, s1: scal["random"], want: wc.mul(P, new(big.Int).Add(scal["random"], big.NewInt(1))), expectOK: false, class: "wrong-result"})
		cscal := map[string]*big.Int{"0": big.NewInt(0), "r": new(big.Int).Set(wc.n), "r+1": new(big.Int).Add(wc.n, big.NewInt(1)), "1": big.NewInt(1), "random": rng.Big(wc.n)}
		for _, sn := range []string{"0", "1", "r", "r+1", "random"} {
			if !o.Thorough() && (sn == "r+1" || sn == "1") && ri > 1 {
				continue
			}
			s := cscal[sn]
			add(ri, &swJob{op: "ScalarMul", complete: true, P: P, Q: Q, s1: s, want: wc.mul(P, s), expectOK: true, class: "complete s=" + sn})
		}
		add(ri, &swJob{op: "ScalarMul", complete: true, P: nil, Q: Q, s1: cscal["random"], want: nil, expectOK: true, class: "complete P=inf"})
		add(ri, &swJob{op: "ScalarMulBase", P: P, Q: Q, s1: scal["random"], want: wc.mul(wc.g, scal["random"]), expectOK: true, class: "s=random"})
		if ri == 1 || o.Thorough() { // [s1]P = [s2]G: the two partial results of the joint multiplication coincide
			dd := new(big.Int).Add(rng.Big(new(big.Int).Sub(wc.n, big.NewInt(3))), big.NewInt(2))
			Pd := wc.mul(wc.g, dd)
			sa := new(big.Int).Add(rng.Big(new(big.Int).Sub(wc.n, big.NewInt(3))), big.NewInt(2))
			sb := new(big.Int).Mod(new(big.Int).Mul(sa, dd), wc.n)
			add(ri, &swJob{op: "JointScalarMulBase", P: Pd, Q: Q, s1: sa, s2: sb, want: wc.add(wc.mul(Pd, sa), wc.mul(wc.g, sb)), expectOK: true, class: "[s1]P = [s2]G"})
		}
		if ri < 2 || o.Thorough() {
			add(ri, &swJob{op: "ScalarMulBase", complete: true, P: P, Q: Q, s1: big.NewInt(0), want: nil, expectOK: true, class: "complete s=0"})
			s1, s2 := rng.Big(wc.n), rng.Big(wc.n)
			add(ri, &swJob{op: "JointScalarMulBase", P: P, Q: Q, s1: s1, s2: s2, want: wc.add(wc.mul(P, s1), wc.mul(wc.g, s2)), expectOK: true, class: "random"})
			add(ri, &swJob{op: "MultiScalarMul", P: P, Q: Q, s1: s1, s2: s2, want: wc.add(wc.mul(P, s1), wc.mul(Q, s2)), expectOK: true, class: "random"})
			add(ri, &swJob{op: "MultiScalarMul", complete: true, P: P, Q: Q, s1: big.NewInt(0), s2: s2, want: wc.mul(Q, s2), expectOK: true, class: "complete s1=0"})
		}
	}
	sem := make(chan struct{}, 14)
	var wg sync.WaitGroup
	for i, j := range jobs {
		i, j := i, j
		wg.Add(1)
		sem <- struct{}{}
		go func() {
			defer wg.Done()
			defer func() { <-sem }()
			t0 := time.Now()
			// a job that does not return within the watchdog is reported as a hang (its goroutine is abandoned)
			jj := *j
			done := make(chan struct{})
			go func() { runners[jobRunner[i]].run(&jj); close(done) }()
			select {
			case <-done:
				*j = jj
			case <-time.After(40 * time.Second):
				j.cls, j.msg = "hang", "no result within 40 s"
			}
			if os.Getenv("VERIF_DEBUG") != "" {
				fmt.Fprintf(os.Stderr, "job %d %s %s complete=%v %s: %s in %v\n", i, j.curve, j.op, j.complete, j.class, j.cls, time.Since(t0))
			}
		}()
	}
	wg.Wait()
	var wcases []string
	for i, j := range jobs {
		wc := runners[jobRunner[i]].wc
		desc := c16Desc{Curve: j.curve, Op: j.op, Class: j.class, Detail: j.msg}
		if j.complete {
			desc.Op += "(complete)"
		}
		rep.Eval(fmt.Sprintf("%s|%s|%v|%s", j.curve, j.op, j.complete, j.class), true)
		rep.Count(j.op + ":" + j.cls)
		if len(rep.Samples) < 5 {
			rep.Sample(desc)
		}
		sigOp := strings.ToLower(j.op)
		sigClass := j.class
		if j.s1 != nil && strings.Contains(j.op, "ScalarMul") && j.s2 == nil {
			// scalar classes by residue: s = 1 and s = r + 1 are one finding, not two
			switch m := new(big.Int).Mod(j.s1, wc.n); {
			case m.Sign() == 0:
				sigClass = "s==0 (mod r)"
			case m.Cmp(big.NewInt(1)) == 0:
				sigClass = "s==1 (mod r)"
			case new(big.Int).Add(m, big.NewInt(1)).Cmp(wc.n) == 0:
				sigClass = "s==-1 (mod r)"
			}
		}
		if j.cls == "panic" {
			rep.Fail("c16:panic:"+sigOp+":"+j.class, fmt.Sprintf("%s %s (%s) panics: %s", j.curve, desc.Op, j.class, j.msg), desc)
		} else if j.cls == "hang" {
			rep.Fail("c16:hang:"+sigOp+":"+sigClass+":"+j.curve, fmt.Sprintf("%s %s on class %s does not terminate (watchdog 40 s)", j.curve, desc.Op, j.class), desc)
		} else if j.expectOK && j.cls != "ok" {
			got := ""
			if j.got[0] != nil {
				got = fmt.Sprintf(" (gadget returned (%s, %s))", j.got[0], j.got[1])
			}
			rep.Fail("c16:differs-from-native:"+sigOp+":"+sigClass+":"+j.curve, fmt.Sprintf("%s %s on class %s does not return the group law's result%s: %s", j.curve, desc.Op, j.class, got, j.msg), desc)
		} else if !j.expectOK && j.cls == "ok" {
			rep.Fail("c16:accepts-wrong:"+sigOp+":"+j.curve, fmt.Sprintf("%s %s accepts a wrong result / an invalid point", j.curve, desc.Op), desc)
		}
		if j.op == "AddUnified" && j.got[0] != nil && j.class != "wrong-result" && len(wcases) < 60 {
			x1, y1 := coords(j.P)
			x2, y2 := coords(j.Q)
			nx, ny := coords(j.want)
			wcases = append(wcases, fmt.Sprintf("(%s, %s, (%s, %s), (%s, %s), (%s, %s), (%s, %s))", zlit(wc.p), zlit(wc.a), zlit(x1), zlit(y1), zlit(x2), zlit(y2), zlit(j.got[0]), zlit(j.got[1]), zlit(nx), zlit(ny)))
		}
	}
	// ---- twisted Edwards
	for _, id := range []tedid.ID{tedid.BN254, tedid.BLS12_381} {
		params, err := twistededwards.GetCurveParams(id)
		if err != nil {
			rep.Fail("harness:ed-params", err.Error(), nil)
			continue
		}
		q, _ := twistededwards.GetSnarkField(id)
		er := &edRef{p: q, a: params.A, d: params.D}
		bx, by := params.Base[0], params.Base[1]
		k1, k2 := rng.Big(params.Order), rng.Big(params.Order)
		px, py := er.mul(bx, by, k1)
		qx, qy := er.mul(bx, by, k2)
		type edJob struct {
			op             string
			p, q           [2]*big.Int
			s1, s2         *big.Int
			want           [2]*big.Int
			ok             bool
			class          string
		}
		mk := func(op, class string, p, q [2]*big.Int, s1, s2 *big.Int, wx, wy *big.Int, ok bool) edJob {
			return edJob{op, p, q, s1, s2, [2]*big.Int{wx, wy}, ok, class}
		}
		P, Q := [2]*big.Int{px, py}, [2]*big.Int{qx, qy}
		I := [2]*big.Int{big.NewInt(0), big.NewInt(1)}
		negP := [2]*big.Int{new(big.Int).Mod(new(big.Int).Neg(px), q), py}
		low := [2]*big.Int{big.NewInt(0), new(big.Int).Sub(q, big.NewInt(1))} // (0,-1): order 2
		var ejobs []edJob
		ax, ay := er.add(px, py, qx, qy)
		ejobs = append(ejobs, mk("Add", "generic", P, Q, nil, nil, ax, ay, true))
		dx, dy := er.add(px, py, px, py)
		ejobs = append(ejobs, mk("Add", "P=Q", P, P, nil, nil, dx, dy, true))
		ejobs = append(ejobs, mk("Double", "generic", P, Q, nil, nil, dx, dy, true))
		ejobs = append(ejobs, mk("Add", "P=-Q", P, negP, nil, nil, big.NewInt(0), big.NewInt(1), true))
		ejobs = append(ejobs, mk("Add", "P+identity", P, I, nil, nil, px, py, true))
		lx, ly := er.add(px, py, low[0], low[1])
		ejobs = append(ejobs, mk("Add", "P+order-2", P, low, nil, nil, lx, ly, true))
		ejobs = append(ejobs, mk("Add", "wrong-result", P, Q, nil, nil, dx, dy, false))
		ejobs = append(ejobs, mk("Neg", "generic", P, Q, nil, nil, negP[0], negP[1], true))
		for _, sn := range []string{"0", "1", "r-1", "r", "random", "2^250"} {
			var s *big.Int
			switch sn {
			case "0":
				s = big.NewInt(0)
			case "1":
				s = big.NewInt(1)
			case "r-1":
				s = new(big.Int).Sub(params.Order, big.NewInt(1))
			case "r":
				s = new(big.Int).Set(params.Order)
			case "2^250":
				s = pow2(250)
			default:
				s = rng.Big(params.Order)
			}
			sx, sy := er.mul(px, py, s)
			ejobs = append(ejobs, mk("ScalarMul", "s="+sn, P, Q, s, nil, sx, sy, true))
		}
		{
			s1, s2 := rng.Big(params.Order), rng.Big(params.Order)
			x1, y1 := er.mul(px, py, s1)
			x2, y2 := er.mul(qx, qy, s2)
			wx, wy := er.add(x1, y1, x2, y2)
			ejobs = append(ejobs, mk("DoubleBaseScalarMul", "random", P, Q, s1, s2, wx, wy, true))
			ejobs = append(ejobs, mk("ScalarMul", "wrong-result", P, Q, s1, nil, x2, y2, false))
		}
		{
			// scalars are field elements: also those with the top bit of the field-width decomposition set
			top := new(big.Int).Lsh(big.NewInt(1), uint(q.BitLen()-1))
			big1 := new(big.Int).Add(top, rng.Big(new(big.Int).Sub(q, top)))
			small := rng.Big(params.Order)
			for _, pr := range [][2]*big.Int{{big1, small}, {small, big1}, {big1, new(big.Int).Sub(q, big.NewInt(1))}} {
				x1, y1 := er.mul(px, py, pr[0])
				x2, y2 := er.mul(qx, qy, pr[1])
				wx, wy := er.add(x1, y1, x2, y2)
				cl := "s1 top bit"
				if pr[0] == small {
					cl = "s2 top bit"
				} else if pr[1] != small {
					cl = "both top bits"
				}
				ejobs = append(ejobs, mk("DoubleBaseScalarMul", cl, P, Q, pr[0], pr[1], wx, wy, true))
			}
			sx, sy := er.mul(px, py, big1)
			ejobs = append(ejobs, mk("ScalarMul", "s top bit", P, Q, big1, nil, sx, sy, true))
		}
		ejobs = append(ejobs, mk("AssertIsOnCurve", "off-curve", [2]*big.Int{px, new(big.Int).Mod(new(big.Int).Add(py, big.NewInt(1)), q)}, Q, nil, nil, px, py, false))
		res := make([]string, len(ejobs))
		var wg2 sync.WaitGroup
		for i := range ejobs {
			i := i
			wg2.Add(1)
			go func() {
				defer wg2.Done()
				j := ejobs[i]
				tmpl := &edCircuit{op: j.op, id: id}
				asg := &edCircuit{P: twistededwards.Point{X: j.p[0], Y: j.p[1]}, Q: twistededwards.Point{X: j.q[0], Y: j.q[1]}, R: twistededwards.Point{X: j.want[0], Y: j.want[1]}, S1: 1, S2: 1}
				if j.s1 != nil {
					asg.S1 = j.s1
				}
				if j.s2 != nil {
					asg.S2 = j.s2
				}
				var err error
				pm := catchPanic(func() { err = test.IsSolved(tmpl, asg, q) })
				switch {
				case pm != "":
					res[i] = "panic: " + pm
				case err != nil:
					res[i] = "unsat: " + shortErr(err)
				default:
					res[i] = "ok"
				}
			}()
		}
		wg2.Wait()
		for i, j := range ejobs {
			desc := c16Desc{Curve: fmt.Sprintf("edwards/%v", id), Op: j.op, Class: j.class, Detail: res[i]}
			rep.Eval(fmt.Sprintf("ed|%v|%s|%s", id, j.op, j.class), true)
			if res[i] == "ok" && j.ok && (j.op == "Add" || j.op == "Double") {
				opn := 0
				if j.op == "Double" {
					opn = 1
				}
				edCases = append(edCases, fmt.Sprintf("(%s, %s, %s, %d%%nat, (%s, %s), (%s, %s), (%s, %s))", zlit(q), zlit(params.A), zlit(params.D), opn,
					zlit(j.p[0]), zlit(j.p[1]), zlit(j.q[0]), zlit(j.q[1]), zlit(j.want[0]), zlit(j.want[1])))
			}
			rep.Count("ed:" + j.op + ":" + strings.SplitN(res[i], ":", 2)[0])
			if strings.HasPrefix(res[i], "panic") {
				rep.Fail("c16:panic:edwards:"+strings.ToLower(j.op), res[i], desc)
			} else if j.ok && res[i] != "ok" {
				cl := j.class
				if j.op == "ScalarMul" && j.s1 != nil && new(big.Int).Mod(j.s1, params.Order).Sign() == 0 {
					cl = "s==0 (mod r)"
				}
				rep.Fail("c16:differs-from-native:edwards:"+strings.ToLower(j.op)+":"+cl, fmt.Sprintf("twisted Edwards %s (%s) on %v does not return the group law's result: %s", j.op, j.class, id, res[i]), desc)
			} else if !j.ok && res[i] == "ok" {
				rep.Fail("c16:accepts-wrong:edwards:"+strings.ToLower(j.op), "a wrong result / invalid point is accepted", desc)
			}
		}
	}
	// ---- dishonest prover on the native twisted Edwards ScalarMul (fake GLV): forged decomposition and result hints
	{
		id := tedid.BN254
		params, _ := twistededwards.GetCurveParams(id)
		q, _ := twistededwards.GetSnarkField(id)
		er := &edRef{p: q, a: params.A, d: params.D}
		px, py := er.mul(params.Base[0], params.Base[1], big.NewInt(12345))
		sc := rng.Big(params.Order)
		var hgID, smID solver.HintID
		var hgFn, smFn solver.Hint
		for _, h := range twistededwards.GetHints() {
			n := solver.GetHintName(h)
			if strings.HasSuffix(n, ".halfGCD") {
				hgID, hgFn = solver.GetHintID(h), h
			}
			if strings.HasSuffix(n, ".scalarMulHint") {
				smID, smFn = solver.GetHintID(h), h
			}
		}
		if hgFn == nil || smFn == nil {
			rep.Fail("harness:hints", "twisted Edwards hints not found", nil)
		} else {
			type forgeEd struct {
				name       string
				s1, s2, bit *big.Int
				qx, qy     *big.Int
			}
			negx := new(big.Int).Mod(new(big.Int).Neg(px), q)
			forges := []forgeEd{
				{"zero decomposition (s1 = s2 = 0), arbitrary result", big.NewInt(0), big.NewInt(0), big.NewInt(0), big.NewInt(5), big.NewInt(7)},
				{"decomposition (1, 1) with a free quotient, result -P", big.NewInt(1), big.NewInt(1), big.NewInt(0), negx, py},
			}
			for _, fg := range forges {
				fg := fg
				tmpl := &edCircuit{op: "ScalarMul", id: id}
				asg := &edCircuit{P: twistededwards.Point{X: px, Y: py}, Q: twistededwards.Point{X: px, Y: py}, S1: sc, S2: 1, R: twistededwards.Point{X: fg.qx, Y: fg.qy}}
				forgedHG := func(m *big.Int, in, out []*big.Int) error {
					// s1 + s2*s = k*Order (mod the native field): k is free
					out[0].Set(fg.s1)
					out[1].Set(fg.s2)
					out[2].Set(fg.bit)
					k := new(big.Int).Mul(fg.s2, in[0])
					k.Add(k, fg.s1).Mod(k, m)
					k.Mul(k, new(big.Int).ModInverse(in[1], m)).Mod(k, m)
					out[3].Set(k)
					return nil
				}
				forgedSM := func(m *big.Int, in, out []*big.Int) error {
					out[0].Set(fg.qx)
					out[1].Set(fg.qy)
					return nil
				}
				for _, t := range []Target{{"bn254", q, true}, {"bn254", q, false}} {
					cls, msg := solveOn(t, tmpl, asg, solver.OverrideHint(hgID, forgedHG), solver.OverrideHint(smID, forgedSM))
					rep.Eval(fmt.Sprintf("ed-forge|%s|%s", fg.name, t), true)
					rep.Count("ed-forge:" + cls)
					desc := c16Desc{Curve: "edwards/bn254", Op: "ScalarMul", Class: "forged hints: " + fg.name, Detail: t.String() + " " + msg}
					if cls == "ok" {
						rep.Fail("c16:forged-accepted:edwards:scalarmul:"+strings.SplitN(fg.name, " ", 2)[0], "native twisted Edwards ScalarMul accepts a result that is not [s]P with forged hints: "+fg.name, desc)
					}
					if cls == "panic" {
						rep.Fail("c16:panic:edwards:forged", msg, desc)
					}
				}
			}
		}
	}
	// ---- dishonest prover on the emulated scalar multiplication with complete arithmetic (compiled R1CS, forged result hint)
	for _, v := range []string{"same-x-arbitrary-y", "P-itself", "zero-scalar-arbitrary-result", "P-256:same-x-arbitrary-y", "P-256:zero-scalar-arbitrary-result"} {
		var cls, msg string
		cname := "secp256k1"
		if strings.HasPrefix(v, "P-256:") {
			cname = "P-256"
			cls, msg, _ = forgedScalarMulCompleteG[emparams.P256Fp, emparams.P256Fr](rng, runners[1].wc, strings.TrimPrefix(v, "P-256:"))
		} else {
			cls, msg, _ = forgedScalarMulComplete(rng, runners[0].wc, v)
		}
		rep.Eval("sw-forge|"+v, true)
		rep.Count("sw-forge:" + cname + ":" + cls)
		desc := c16Desc{Curve: cname, Op: "ScalarMul(complete)", Class: "forged result hint: " + v, Detail: msg}
		if cls == "ok" {
			rep.Fail("c16:forged-accepted:sw-emulated:scalarmul-complete:"+v, "sw_emulated ScalarMul with complete arithmetic accepts a hinted result that is not [s]P ("+v+")", desc)
		} else if cls == "panic" || cls == "compile-error" {
			rep.Fail("c16:"+cls+":sw-forge", msg, desc)
		}
	}
	// ---- ECDSA
	ecdsaRun := func(name string, wc *wcurve, run func(r, s, m *big.Int, pub *wpt) string) {
		d := new(big.Int).Add(rng.Big(new(big.Int).Sub(wc.n, big.NewInt(2))), big.NewInt(1))
		pub := wc.mul(wc.g, d)
		m := rng.Big(wc.n)
		k := new(big.Int).Add(rng.Big(new(big.Int).Sub(wc.n, big.NewInt(2))), big.NewInt(1))
		R := wc.mul(wc.g, k)
		r := new(big.Int).Mod(R.x, wc.n)
		s := new(big.Int).Mul(r, d)
		s.Add(s, m).Mul(s, new(big.Int).ModInverse(k, wc.n)).Mod(s, wc.n)
		if name == "P-256" {
			pk := ecdsa.PublicKey{Curve: elliptic.P256(), X: pub.x, Y: pub.y}
			mb := m.FillBytes(make([]byte, 32))
			rep.Eval("ecdsa-crosscheck|P-256", true)
			if !ecdsa.Verify(&pk, mb, r, s) {
				rep.Fail("harness:ecdsa-reference", "reference signature rejected by crypto/ecdsa", nil)
			}
		}
		// a valid signature whose two partial results are the same point: m = r d, s = 2 r d / k
		mEq := new(big.Int).Mod(new(big.Int).Mul(r, d), wc.n)
		sEq := new(big.Int).Mul(mEq, big.NewInt(2))
		sEq.Mul(sEq, new(big.Int).ModInverse(k, wc.n)).Mod(sEq, wc.n)
		if name == "P-256" {
			pk := ecdsa.PublicKey{Curve: elliptic.P256(), X: pub.x, Y: pub.y}
			if !ecdsa.Verify(&pk, mEq.FillBytes(make([]byte, 32)), r, sEq) {
				rep.Fail("harness:ecdsa-reference", "reference signature (m = r d) rejected by crypto/ecdsa", nil)
			}
		}
		one := big.NewInt(1)
		variants := []struct {
			name       string
			r, s, m    *big.Int
			pub        *wpt
			ok         bool
		}{
			{"valid", r, s, m, pub, true},
			{"message+1", r, s, new(big.Int).Mod(new(big.Int).Add(m, one), wc.n), pub, false},
			{"r+1", new(big.Int).Mod(new(big.Int).Add(r, one), wc.n), s, m, pub, false},
			{"s+1", r, new(big.Int).Mod(new(big.Int).Add(s, one), wc.n), m, pub, false},
			{"-s (malleable twin, valid)", r, new(big.Int).Sub(wc.n, s), m, pub, true},
			{"valid, m = r d (the two partial results [m/s]G and [r/s]Q coincide)", r, sEq, mEq, pub, true},
			{"other key", r, s, m, wc.mul(wc.g, new(big.Int).Add(d, one)), false},
			{"s=0", r, big.NewInt(0), m, pub, false},
			{"r=0", big.NewInt(0), s, m, pub, false},
		}
		out := make([]string, len(variants))
		var wg3 sync.WaitGroup
		for i, v := range variants {
			i, v := i, v
			wg3.Add(1)
			go func() { defer wg3.Done(); out[i] = run(v.r, v.s, v.m, v.pub) }()
		}
		wg3.Wait()
		for i, v := range variants {
			rep.Eval("ecdsa|"+name+"|"+v.name, true)
			rep.Count("ecdsa:" + strings.SplitN(out[i], ":", 2)[0])
			desc := c16Desc{Curve: name, Op: "ECDSA.Verify", Class: v.name, Detail: out[i]}
			if strings.HasPrefix(out[i], "panic") {
				rep.Fail("c16:panic:ecdsa:"+v.name, out[i], desc)
			} else if v.ok && out[i] != "ok" {
				rep.Fail("c16:ecdsa-rejects-valid:"+name, "a valid signature is rejected: "+out[i], desc)
			} else if !v.ok && out[i] == "ok" {
				rep.Fail("c16:ecdsa-accepts-invalid:"+name+":"+v.name, "an invalid signature is accepted ("+v.name+")", desc)
			}
		}
	}
	ecdsaRun("secp256k1", runners[0].wc, func(r, s, m *big.Int, pub *wpt) string {
		return runEcdsa[emparams.Secp256k1Fp, emparams.Secp256k1Fr](r, s, m, pub)
	})
	ecdsaRun("P-256", runners[1].wc, func(r, s, m *big.Int, pub *wpt) string {
		return runEcdsa[emparams.P256Fp, emparams.P256Fr](r, s, m, pub)
	})
	// ---- EVM precompiles: ECAdd / ECMul on BN254 G1 with the (0,0) convention
	{
		wc := runners[2].wc
		P := wc.mul(wc.g, rng.Big(wc.n))
		Q := wc.mul(wc.g, rng.Big(wc.n))
		z := cubeRootOfUnity(wc.p)
		Z := &wpt{new(big.Int).Mod(new(big.Int).Mul(z, P.x), wc.p), new(big.Int).Mod(new(big.Int).Neg(P.y), wc.p)}
		pt := func(P *wpt) sw_emulated.AffinePoint[emparams.BN254Fp] {
			x, y := coords(P)
			return sw_emulated.AffinePoint[emparams.BN254Fp]{X: emulated.ValueOf[emparams.BN254Fp](x), Y: emulated.ValueOf[emparams.BN254Fp](y)}
		}
		type ej struct {
			name string
			P, Q *wpt
		}
		ejs := []ej{{"generic", P, Q}, {"P=Q", P, P}, {"P=-Q", P, wc.neg(P)}, {"0+Q", nil, Q}, {"P+0", P, nil}, {"0+0", nil, nil}, {"(x,y)+(zeta x,-y)", P, Z}}
		outs := make([]string, len(ejs))
		gots := make([][2]*big.Int, len(ejs))
		var wg4 sync.WaitGroup
		for i, e := range ejs {
			i, e := i, e
			wg4.Add(1)
			go func() {
				defer wg4.Done()
				tmpl := &ecaddCircuit{got: &gots[i]}
				asg := &ecaddCircuit{P: pt(e.P), Q: pt(e.Q), R: pt(wc.add(e.P, e.Q))}
				var err error
				pm := catchPanic(func() { err = test.IsSolved(tmpl, asg, bnQ) })
				switch {
				case pm != "":
					outs[i] = "panic: " + pm
				case err != nil:
					outs[i] = "unsat: " + shortErr(err)
				default:
					outs[i] = "ok"
				}
			}()
		}
		wg4.Wait()
		for i, e := range ejs {
			rep.Eval("ecadd|"+e.name, true)
			desc := c16Desc{Curve: "bn254", Op: "evm.ECAdd", Class: e.name, Detail: outs[i]}
			if outs[i] != "ok" {
				got := ""
				if gots[i][0] != nil {
					got = fmt.Sprintf(" (returned (%s, %s))", gots[i][0], gots[i][1])
				}
				rep.Fail("c16:differs-from-native:ecadd:"+e.name, "EVM ECAdd on class "+e.name+" does not return the group law's result"+got+": "+outs[i], desc)
			}
		}
		// ECMul
		for _, sn := range []string{"0", "1", "r-1", "r", "r+1", "random", "2^255"} {
			var s *big.Int
			switch sn {
			case "0":
				s = big.NewInt(0)
			case "1":
				s = big.NewInt(1)
			case "r-1":
				s = new(big.Int).Sub(wc.n, big.NewInt(1))
			case "r":
				s = new(big.Int).Set(wc.n)
			case "r+1":
				s = new(big.Int).Add(wc.n, big.NewInt(1))
			case "2^255":
				s = pow2(255)
			default:
				s = rng.Big(wc.n)
			}
			if !o.Thorough() && (sn == "r+1" || sn == "2^255") {
				continue
			}
			tmpl := &ecmulCircuit{}
			asg := &ecmulCircuit{P: pt(P), U: rawScalar[emparams.BN254Fr](s), R: pt(wc.mul(P, s))}
			var err error
			pm := catchPanic(func() { err = test.IsSolved(tmpl, asg, bnQ) })
			rep.Eval("ecmul|"+sn, true)
			desc := c16Desc{Curve: "bn254", Op: "evm.ECMul", Class: "s=" + sn}
			if pm != "" {
				desc.Detail = pm
				rep.Fail("c16:panic:ecmul:"+sn, pm, desc)
			} else if err != nil {
				desc.Detail = shortErr(err)
				rep.Fail("c16:differs-from-native:ecmul:s="+sn, "EVM ECMul with scalar "+sn+" does not return [s]P: "+shortErr(err), desc)
			}
		}
	}
	// ---- one pairing equation on emulated BN254: e(aP, bQ) e(-abP, Q) = 1, and a wrong one
	{
		_, _, g1, g2 := bn254c.Generators()
		a, b := rng.Big(bn254fr.Modulus()), rng.Big(bn254fr.Modulus())
		var p1, p2 bn254c.G1Affine
		var q1 bn254c.G2Affine
		p1.ScalarMultiplication(&g1, a)
		q1.ScalarMultiplication(&g2, b)
		ab := new(big.Int).Mul(a, b)
		p2.ScalarMultiplication(&g1, ab)
		p2.Neg(&p2)
		for _, valid := range []bool{true, false} {
			pp2 := p2
			if !valid {
				pp2.Add(&pp2, &g1)
			}
			asg := &pairCircuit{P: [2]sw_bn254.G1Affine{sw_bn254.NewG1Affine(p1), sw_bn254.NewG1Affine(pp2)}, Q: [2]sw_bn254.G2Affine{sw_bn254.NewG2Affine(q1), sw_bn254.NewG2Affine(g2)}}
			var err error
			pm := catchPanic(func() { err = test.IsSolved(&pairCircuit{}, asg, bnQ) })
			rep.Eval(fmt.Sprint("pairing|", valid), true)
			if pm != "" {
				rep.Fail("c16:panic:pairing", pm, nil)
			} else if valid && err != nil {
				rep.Fail("c16:pairing-rejects-valid", "a valid pairing equation is rejected: "+shortErr(err), nil)
			} else if !valid && err == nil {
				rep.Fail("c16:pairing-accepts-invalid", "an invalid pairing equation is accepted", nil)
			}
		}
	}
	_ = ecc.BN254
	_ = solver.GetRegisteredHints
	hdr := "From Coq Require Import ZArith List Bool.\nFrom GnarkV Require Import Std.WeierstrassCases.\nImport ListNotations.\n"
	half := len(wcases) / 2
	for i, part := range [][]string{wcases[:half], wcases[half:]} {
		writeFile(o.Out, fmt.Sprintf("cases_C16_%d.v", i), hdr+fmt.Sprintf("Definition wcases : list (Z * Z * (Z * Z) * (Z * Z) * (Z * Z) * (Z * Z)) := %s.\nDefinition mism_addunified_%d := Eval vm_compute in wmism 0 wcases.\nPrint mism_addunified_%d.\n", coqlistNL(part), i, i))
	}
	rep.CoqCases = len(wcases)
	c16EdDSA(rep, rng)
	c16Misc(rep, rng)
	c16MSM377(rep, rng)
	c16MuxG2(rep, rng, o.Thorough())
	writeFile(o.Out, "cases_C16_ed.v", "From Coq Require Import ZArith List Bool.\nFrom GnarkV Require Import Std.EdwardsCases.\nImport ListNotations.\nLocal Open Scope Z_scope.\n"+
		fmt.Sprintf("Definition edcases : list edcase := %s.\nDefinition mism_edwards := Eval vm_compute in ed_mismatches 0 edcases.\nPrint mism_edwards.\n", coqlistNL(edCases)))
	rep.CoqCases += len(edCases)
	rep.Write(o.Out)
	return 0
}

func runEcdsa[B, S emulated.FieldParams](r, s, m *big.Int, pub *wpt) string {
	tmpl := &ecdsaCircuit[B, S]{}
	asg := &ecdsaCircuit[B, S]{
		Sig: gecdsa.Signature[S]{R: emulated.ValueOf[S](r), S: emulated.ValueOf[S](s)},
		Msg: emulated.ValueOf[S](m),
		Pub: gecdsa.PublicKey[B, S]{X: emulated.ValueOf[B](pub.x), Y: emulated.ValueOf[B](pub.y)},
	}
	var err error
	pm := catchPanic(func() { err = test.IsSolved(tmpl, asg, bnQ) })
	switch {
	case pm != "":
		return "panic: " + pm
	case err != nil:
		return "unsat: " + shortErr(err)
	}
	return "ok"
}
