package main

// C09: the Solidity proof encoding of PLONK / BN254 (backend/plonk/bn254 MarshalSolidity / UnmarshalSolidity):
// decode(encode(p)) re-encodes to the same bytes and carries the same elements as p, for 0..3 commitments.

import (
	"bytes"
	"fmt"

	"github.com/consensys/gnark-crypto/ecc"
	"github.com/consensys/gnark/backend/plonk"
	pl254 "github.com/consensys/gnark/backend/plonk/bn254"
	"github.com/consensys/gnark/constraint"
	"github.com/consensys/gnark/frontend"
	"github.com/consensys/gnark/frontend/cs/scs"
	"github.com/consensys/gnark/test/unsafekzg"
)

func solidityRoundTrip(rep *Report) {
	q := ecc.BN254.ScalarField()
	for _, sp := range g16Specs() {
		nb := map[string]int{"cubic": 0, "commit1": 1, "commit2-independent": 2, "commit3": 3}
		n, ok := nb[sp.name]
		if !ok {
			continue
		}
		desc := c09Desc{"plonk-proof-solidity", "bn254", fmt.Sprintf("%s (%d commitments)", sp.name, n)}
		ccs, err := frontend.Compile(q, scs.NewBuilder[constraint.U64], sp.mk())
		if err != nil {
			rep.Fail("harness:compile", err.Error(), desc)
			continue
		}
		srs, lag, err := unsafekzg.NewSRS(ccs, unsafekzg.WithFSCache())
		if err != nil {
			rep.Fail("harness:srs", err.Error(), desc)
			continue
		}
		pk, _, err := plonk.Setup(ccs, srs, lag)
		if err != nil {
			rep.Fail("harness:setup", err.Error(), desc)
			continue
		}
		w, _ := frontend.NewWitness(sp.asg(0), q)
		pr, err := plonk.Prove(ccs, pk, w)
		if err != nil {
			rep.Fail("harness:prove", shortErr(err), desc)
			continue
		}
		p := pr.(*pl254.Proof)
		if len(p.Bsb22Commitments) != n {
			rep.Fail("harness:commitments", fmt.Sprintf("%d commitments in the proof, %d expected", len(p.Bsb22Commitments), n), desc)
			continue
		}
		rep.Eval("solidity|"+sp.name, true)
		rep.Count("encoding:plonk-proof:solidity")
		b1 := p.MarshalSolidity()
		var p2 pl254.Proof
		if pm := catchPanic(func() { p2 = pl254.UnmarshalSolidity(b1, n) }); pm != "" {
			rep.Fail("c09:read-panic:plonk-proof:solidity", pm, desc)
			continue
		}
		if b2 := p2.MarshalSolidity(); !bytes.Equal(b1, b2) {
			rep.Fail("c09:reencode:plonk-proof:solidity", fmt.Sprintf("re-encoding the decoded Solidity proof differs (%d vs %d bytes)", len(b1), len(b2)), desc)
		}
		same := p2.Z.Equal(&p.Z) && p2.BatchedProof.H.Equal(&p.BatchedProof.H) && p2.ZShiftedOpening.H.Equal(&p.ZShiftedOpening.H) &&
			p2.ZShiftedOpening.ClaimedValue.Equal(&p.ZShiftedOpening.ClaimedValue)
		for i := 0; i < 3; i++ {
			same = same && p2.LRO[i].Equal(&p.LRO[i]) && p2.H[i].Equal(&p.H[i])
		}
		for i := range p.Bsb22Commitments {
			same = same && p2.Bsb22Commitments[i].Equal(&p.Bsb22Commitments[i])
		}
		// the encoding leaves out ClaimedValues[0] (recomputed by the verifier)
		for i := 1; i < len(p.BatchedProof.ClaimedValues); i++ {
			same = same && i < len(p2.BatchedProof.ClaimedValues) && p2.BatchedProof.ClaimedValues[i].Equal(&p.BatchedProof.ClaimedValues[i])
		}
		if !same {
			rep.Fail("c09:behaviour:plonk-proof:solidity", "the proof decoded from its Solidity encoding carries other elements than the original", desc)
		}
	}
}
