package main

// C11: compilation is deterministic.

import (
	"bytes"
	"crypto/sha256"
	"fmt"
	"io"
	"os"
	"os/exec"
	"sort"
	"strings"
	"sync"

	"github.com/consensys/gnark-crypto/ecc"
	"github.com/consensys/gnark/frontend"
	"github.com/consensys/gnark/std/math/emulated"
	"github.com/consensys/gnark/std/math/emulated/emparams"
	"github.com/consensys/gnark/std/rangecheck"
)

func init() { commands["c11"] = runC11; commands["c11child"] = runC11Child }

// unconstrained witnesses queried through the compiler's wire-to-constraint interface (SCS only)
type wireQueryCircuit struct {
	A, B, C, D, E, F frontend.Variable
	exact            bool
}

type wireQuerier interface {
	GetWireConstraints(wires []frontend.Variable, addMissing bool) ([][2]int, error)
	GetWiresConstraintExact(wires []frontend.Variable, addMissing bool) ([][2]int, error)
}

func (c *wireQueryCircuit) Define(api frontend.API) error {
	api.AssertIsEqual(api.Mul(c.A, c.A), c.B)
	wq, ok := api.Compiler().(wireQuerier)
	if !ok {
		return nil // R1CS builder: no such interface
	}
	ws := []frontend.Variable{c.F, c.C, c.E, c.D, c.A, c.C}
	var err error
	if c.exact {
		_, err = wq.GetWiresConstraintExact(ws, true)
	} else {
		_, err = wq.GetWireConstraints(ws, true)
	}
	return err
}

// emulated elements that are pre-allocated in the circuit value (emulated.ValueOf) and used directly by operations that
// mark their argument (AssertIsInRange, ReduceStrict): state kept in the circuit value must not survive into the next
// compilation of the same value
type emuPreallocCircuit struct {
	X, Y emulated.Element[emparams.Secp256k1Fp]
	Z    emulated.Element[emparams.Secp256k1Fp] `gnark:",public"`
}

func newEmuPrealloc() *emuPreallocCircuit {
	return &emuPreallocCircuit{X: emulated.ValueOf[emparams.Secp256k1Fp](0), Y: emulated.ValueOf[emparams.Secp256k1Fp](0), Z: emulated.ValueOf[emparams.Secp256k1Fp](0)}
}

func (c *emuPreallocCircuit) Define(api frontend.API) error {
	f, err := emulated.NewField[emparams.Secp256k1Fp](api)
	if err != nil {
		return err
	}
	f.AssertIsInRange(&c.X)
	y := f.ReduceStrict(&c.Y)
	f.AssertIsEqual(f.Mul(&c.X, y), &c.Z)
	bits := f.ToBitsCanonical(&c.Z)
	api.AssertIsBoolean(bits[0])
	return nil
}

type emuCircuit struct {
	X, Y emulated.Element[emparams.Secp256k1Fp]
	Z    emulated.Element[emparams.Secp256k1Fp] `gnark:",public"`
	W    frontend.Variable
}

func (c *emuCircuit) Define(api frontend.API) error {
	f, err := emulated.NewField[emparams.Secp256k1Fp](api)
	if err != nil {
		return err
	}
	m := f.Mul(&c.X, &c.Y)
	s := f.Add(m, &c.X)
	f.AssertIsEqual(s, &c.Z)
	d := f.Div(&c.Z, &c.Y)
	f.AssertIsDifferent(d, &c.X)
	rc := rangecheck.New(api)
	rc.Check(c.W, 17)
	rc.Check(api.Add(c.W, 1), 9)
	return nil
}

// variable-modulus emulated arithmetic: the modulus is a witness of the circuit value
type varModCircuit struct {
	Modulus, A, B emulated.Element[emparams.Mod1e512]
	R             emulated.Element[emparams.Mod1e512] `gnark:",public"`
}

func (c *varModCircuit) Define(api frontend.API) error {
	f, err := emulated.NewField[emparams.Mod1e512](api)
	if err != nil {
		return err
	}
	m := f.ModMul(&c.A, &c.B, &c.Modulus)
	s := f.ModAdd(m, &c.A, &c.Modulus)
	f.ModAssertIsEqual(s, &c.R, &c.Modulus)
	return nil
}

// range checks: mixes with the same number of checks and the same total of bits but different widths
type rcMixCircuit struct {
	V      []frontend.Variable
	widths []int
}

func (c *rcMixCircuit) Define(api frontend.API) error {
	rc := rangecheck.New(api)
	for i, v := range c.V {
		rc.Check(v, c.widths[i])
	}
	return nil
}

func rcMix(widths []int) func() frontend.Circuit {
	return func() frontend.Circuit {
		return &rcMixCircuit{V: make([]frontend.Variable, len(widths)), widths: widths}
	}
}

type namedCircuit struct {
	name string
	t    Target
	mk   func() frontend.Circuit
}

func c11Circuits(seed uint64, thorough bool) []namedCircuit {
	rng := NewRNG(seed)
	bn := ecc.BN254.ScalarField()
	var out []namedCircuit
	nprog := 16
	if thorough {
		nprog = 150
	}
	ts := []Target{{"bn254", bn, true}, {"bn254", bn, false}, {"tiny", tinyMod, true}, {"tiny", tinyMod, false}}
	for i := 0; i < nprog; i++ {
		p := GenProg(rng, ts[i%4].Field, GenCfg{MaxOps: 10})
		t := ts[i%4]
		out = append(out, namedCircuit{fmt.Sprintf("prog%d:%s", i, p.String()), t, func() frontend.Circuit { return NewProgCircuit(p) }})
	}
	for _, r1 := range []bool{true, false} {
		t := Target{"bn254", bn, r1}
		out = append(out, namedCircuit{"rich", t, func() frontend.Circuit { return &richCircuit{} }})
		for m := 0; m < 3; m++ {
			m := m
			out = append(out, namedCircuit{fmt.Sprintf("lookup%d", m), t, func() frontend.Circuit { return &lookupCircuit{mode: m} }})
		}
		out = append(out, namedCircuit{"emulated+rangecheck", t, func() frontend.Circuit { return &emuCircuit{} }})
		out = append(out, namedCircuit{"emulated-preallocated", t, func() frontend.Circuit { return newEmuPrealloc() }})
		out = append(out, namedCircuit{"cm2", t, func() frontend.Circuit { return &cm2{} }})
		out = append(out, namedCircuit{"varmod", t, func() frontend.Circuit { return &varModCircuit{} }})
		w2 := make([]int, 64)
		w13 := make([]int, 64)
		w5 := make([]int, 40)
		w19 := make([]int, 40)
		for i := range w2 {
			w2[i] = 2
			w13[i] = 1 + 2*(i%2)
		}
		for i := range w5 {
			w5[i] = 5
			w19[i] = 1 + 8*(i%2)
		}
		out = append(out, namedCircuit{"rangecheck-64x2", t, rcMix(w2)}, namedCircuit{"rangecheck-32x1+32x3", t, rcMix(w13)},
			namedCircuit{"rangecheck-40x5", t, rcMix(w5)}, namedCircuit{"rangecheck-20x1+20x9", t, rcMix(w19)})
	}
	scs := Target{"bn254", bn, false}
	out = append(out, namedCircuit{"wirequery", scs, func() frontend.Circuit { return &wireQueryCircuit{} }})
	out = append(out, namedCircuit{"wirequery-exact", scs, func() frontend.Circuit { return &wireQueryCircuit{exact: true} }})
	return out
}

func compileHash(nc namedCircuit) string {
	ccs, cerr := compileTarget(nc.t, nc.mk(), frontend.IgnoreUnconstrainedInputs())
	if cerr != "" {
		return "ERR:" + strings.SplitN(cerr, "\n", 2)[0]
	}
	var b bytes.Buffer
	if _, err := ccs.(io.WriterTo).WriteTo(&b); err != nil {
		return "ERR:" + err.Error()
	}
	return fmt.Sprintf("%x", sha256.Sum256(b.Bytes()))
}

// the child compiles the circuits in an order that depends on its number: state left behind by one
// compilation (package-level caches) would change what a later one produces
func runC11Child(args []string) int {
	order := 0
	if len(args) > 0 && strings.HasPrefix(args[0], "order=") {
		fmt.Sscanf(args[0], "order=%d", &order)
		args = args[1:]
	}
	o := parseOpts(args)
	cs := c11Circuits(o.Seed, o.Thorough())
	n := len(cs)
	for k := 0; k < n; k++ {
		i := k
		switch order {
		case 1:
			i = n - 1 - k
		case 2:
			i = (k*7 + 3) % n
			if n%7 == 0 {
				i = (k + n/2) % n
			}
		}
		fmt.Printf("%d %s\n", i, compileHash(cs[i]))
	}
	return 0
}

func runC11(args []string) int {
	o := parseOpts(args)
	rep := NewReport("C11")
	rep.Rule = "each circuit (seeded API programs on both builders and two fields; circuits with hints, lookup tables, range checks with commitment, multiple commitments, emulated arithmetic with deferred checks, the wire-to-constraint query interface with missing wires) is compiled 6 times sequentially from fresh values and 3 times from one reused circuit value, 8 times in concurrent goroutines interleaved with the other circuits, and once in each of 3 fresh processes that visit the circuits in different orders; the sha256 of the serialized system must be identical in all runs; non-trivial = circuit that compiles; distinct = distinct circuit x target"
	circuits := c11Circuits(o.Seed, o.Thorough())
	ref := make([]string, len(circuits))
	for i, nc := range circuits {
		ref[i] = compileHash(nc)
		rep.Eval(nc.name+"|"+nc.t.String(), !strings.HasPrefix(ref[i], "ERR"))
		if strings.HasPrefix(ref[i], "ERR") {
			rep.Count("compile-error")
		}
		rep.Sample(map[string]string{"circuit": nc.name, "target": nc.t.String(), "sha256": ref[i]})
	}
	fail := func(i int, how, got string) {
		nc := circuits[i]
		short := nc.name
		if k := strings.Index(short, ":"); k > 0 {
			short = short[:k]
		}
		rep.Fail("c11:nondeterministic:"+how+":"+strings.TrimRight(short, "0123456789"), fmt.Sprintf("%s on %s compiled %s to a different system: %s vs %s", nc.name, nc.t, how, got, ref[i]), map[string]string{"circuit": nc.name, "target": nc.t.String()})
	}
	// sequential repetitions
	for rnd := 0; rnd < 5; rnd++ {
		for i, nc := range circuits {
			if h := compileHash(nc); h != ref[i] {
				fail(i, "sequentially", h)
			}
			rep.Count("sequential")
		}
	}
	// the SAME circuit value compiled again and again (state kept in the value must not leak into the system)
	for i, nc := range circuits {
		c := nc.mk()
		for rnd := 0; rnd < 3; rnd++ {
			h := compileHash(namedCircuit{nc.name, nc.t, func() frontend.Circuit { return c }})
			if h != ref[i] {
				fail(i, fmt.Sprintf("from a reused circuit value (compilation %d)", rnd+1), h)
			}
			rep.Count("reused-value")
		}
	}
	// concurrent, interleaved with the other circuits
	var wg sync.WaitGroup
	var mu sync.Mutex
	for g := 0; g < 8; g++ {
		g := g
		wg.Add(1)
		go func() {
			defer wg.Done()
			for k := range circuits {
				i := (k*7 + g*3) % len(circuits)
				h := compileHash(circuits[i])
				mu.Lock()
				if h != ref[i] {
					fail(i, "concurrently", h)
				}
				rep.Count("concurrent")
				mu.Unlock()
			}
		}()
	}
	wg.Wait()
	// fresh processes (different map seeds, fresh global state)
	self, _ := os.Executable()
	for pnum := 0; pnum < 3; pnum++ {
		out, err := exec.Command(self, "c11child", fmt.Sprintf("order=%d", pnum), "-seed", fmt.Sprint(o.Seed), "-tier", o.Tier).Output()
		if err != nil {
			rep.Fail("harness:child", err.Error(), nil)
			continue
		}
		lines := strings.Split(strings.TrimSpace(string(out)), "\n")
		got := map[int]string{}
		for _, l := range lines {
			var i int
			var h string
			if n, _ := fmt.Sscanf(l, "%d %s", &i, &h); n == 2 {
				got[i] = h
			}
		}
		keys := make([]int, 0)
		for i := range circuits {
			keys = append(keys, i)
		}
		sort.Ints(keys)
		for _, i := range keys {
			h, ok := got[i]
			if !ok || h != ref[i] {
				if !(strings.HasPrefix(ref[i], "ERR") && strings.HasPrefix(h, "ERR")) {
					fail(i, "in a fresh process", h)
				}
			}
			rep.Count("cross-process")
		}
	}
	rep.CoqCases = 1
	rep.Write(o.Out)
	return 0
}
