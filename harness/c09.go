package main

// C09: serialized artifacts decode to objects that behave identically.

import (
	"bytes"
	"fmt"
	"io"
	"math/big"
	"reflect"
	"strings"

	"github.com/consensys/gnark-crypto/ecc"
	"github.com/consensys/gnark/backend/groth16"
	"github.com/consensys/gnark/backend/plonk"
	"github.com/consensys/gnark/backend/witness"
	"github.com/consensys/gnark/constraint"
	cs_tiny "github.com/consensys/gnark/constraint/tinyfield"
	"github.com/consensys/gnark/frontend"
	"github.com/consensys/gnark/frontend/cs/r1cs"
	"github.com/consensys/gnark/frontend/cs/scs"
	"github.com/consensys/gnark/std/lookup/logderivlookup"
	"github.com/consensys/gnark/std/rangecheck"
	"github.com/consensys/gnark/test/unsafekzg"
)

func init() { commands["c09"] = runC09 }

// a circuit with every instruction family: generic + specialised gates, hints, a lookup table,
// a commitment (range check with commit), logs
type richCircuit struct {
	X, Y frontend.Variable
	Z    frontend.Variable `gnark:",public"`
}

func (c *richCircuit) Define(api frontend.API) error {
	m := api.Mul(c.X, c.Y)
	api.AssertIsEqual(m, c.Z)
	b := api.ToBinary(c.X, 8)
	api.AssertIsBoolean(b[0])
	api.Println("x*y =", m)
	t := logderivlookup.New(api)
	for i := 0; i < 8; i++ {
		t.Insert(i * i)
	}
	idx := api.FromBinary(b[:3]...)
	r := t.Lookup(idx)
	api.AssertIsDifferent(api.Add(r[0], 1), 0)
	rc := rangecheck.New(api)
	rc.Check(c.Y, 10)
	cm, err := api.(frontend.Committer).Commit(c.X, c.Y)
	if err != nil {
		return err
	}
	api.AssertIsDifferent(cm, 0)
	api.AssertIsEqual(api.IsZero(api.Sub(m, c.Z)), 1)
	return nil
}

type countWriter struct {
	buf bytes.Buffer
}

func newEmptyCS(t Target) interface{} {
	if t.Name == "tiny" {
		// as groth16.NewCS / plonk.NewCS do for the curve fields: a zero-value receiver
		if t.R1CS {
			return &cs_tiny.R1CS{}
		}
		return &cs_tiny.SparseR1CS{}
	}
	id := curveOf(t.Field)
	if t.R1CS {
		return groth16.NewCS(id)
	}
	return plonk.NewCS(id)
}

func curveOf(q *big.Int) ecc.ID {
	for _, id := range []ecc.ID{ecc.BN254, ecc.BLS12_377, ecc.BLS12_381, ecc.BW6_761, ecc.BLS24_315, ecc.BLS24_317, ecc.BW6_633} {
		if id.ScalarField().Cmp(q) == 0 {
			return id
		}
	}
	return ecc.UNKNOWN
}

type c09Desc struct {
	What   string `json:"what"`
	Target string `json:"target"`
	Detail string `json:"detail"`
}

func bytesToZ(b []byte) string {
	var sb strings.Builder
	sb.WriteString("[")
	for i, x := range b {
		if i > 0 {
			sb.WriteString("; ")
		}
		fmt.Fprintf(&sb, "%d", x)
	}
	sb.WriteString("]%Z")
	return sb.String()
}

// limbs of a coefficient (raw Montgomery words) through the generic accessor
func coeffLimbs(ccs interface{}, i int) []uint64 {
	m := reflect.ValueOf(ccs).MethodByName("GetCoefficient")
	r := m.Call([]reflect.Value{reflect.ValueOf(i)})[0]
	out := make([]uint64, r.Len())
	for k := range out {
		out[k] = r.Index(k).Uint()
	}
	return out
}

func sysRoundTrip(rep *Report, t Target, ccs interface{}, detail string, wits []witness.Witness) (coq string) {
	desc := c09Desc{"constraint-system", t.String(), detail}
	rep.Eval("sys|"+t.String()+"|"+detail, true)
	rep.Sample(desc)
	var b1 bytes.Buffer
	n1, err := ccs.(io.WriterTo).WriteTo(&b1)
	if err != nil {
		rep.Fail("c09:sys-write", err.Error(), desc)
		return
	}
	if n1 != int64(b1.Len()) {
		rep.Fail("c09:sys-count-write", fmt.Sprintf("WriteTo reported %d bytes, wrote %d", n1, b1.Len()), desc)
	}
	dec := newEmptyCS(t)
	rd := bytes.NewReader(append(append([]byte{}, b1.Bytes()...), 0xAA, 0xBB, 0xCC)) // trailing bytes must not be consumed
	var n2 int64
	if p := catchPanic(func() { n2, err = dec.(io.ReaderFrom).ReadFrom(rd) }); p != "" {
		rep.Fail("c09:sys-read-panic", p, desc)
		return
	}
	if err != nil {
		rep.Fail("c09:sys-read", err.Error(), desc)
		return
	}
	if n2 != int64(b1.Len()) || rd.Len() != 3 {
		rep.Fail("c09:sys-count-read", fmt.Sprintf("ReadFrom reported %d bytes, stream had %d, %d left unread (expected 3)", n2, b1.Len(), rd.Len()), desc)
	}
	var b2 bytes.Buffer
	if _, err := dec.(io.WriterTo).WriteTo(&b2); err != nil || !bytes.Equal(b1.Bytes(), b2.Bytes()) {
		rep.Fail("c09:sys-reencode", fmt.Sprintf("re-encoding the decoded system differs (err=%v, %d vs %d bytes)", err, b1.Len(), b2.Len()), desc)
	}
	// behaviour: same solutions / same failures
	for wi, w := range wits {
		o1 := SolveCapture(ccs, w, 1)
		o2 := SolveCapture(dec, w, 1)
		if o1.Class != o2.Class || obsEqual(o1, o2) != "" {
			rep.Fail("c09:sys-behaviour", fmt.Sprintf("witness %d: original %s, decoded %s (%s)", wi, o1.Class, o2.Class, obsEqual(o1, o2)), desc)
		}
		rep.Count("sys-solve:" + o1.Class)
	}
	// Coq case: bytes + what the container must contain
	sys := sysOf(ccs)
	if b1.Len() < 6000 {
		nc := ccs.(nbCoeffs).GetNbCoefficients()
		cl := make([]string, nc)
		limbs := 0
		for i := 0; i < nc; i++ {
			ls := coeffLimbs(ccs, i)
			nl := (t.Field.BitLen() + 63) / 64 // the generic accessor pads to the widest field
			if t.Name == "tiny" {
				nl = 1
			}
			ls = ls[:nl]
			limbs = len(ls)
			bs := make([]*big.Int, len(ls))
			for k, x := range ls {
				bs[k] = new(big.Int).SetUint64(x)
			}
			cl[i] = zlist(bs)
		}
		cd := make([]*big.Int, len(sys.CallData))
		for i, x := range sys.CallData {
			cd[i] = big.NewInt(int64(x))
		}
		// U32 fields store 32-bit limbs in a uint64 encoding? (tinyfield: one word)
		lw := 8
		if t.Name == "tiny" {
			lw = 4 // U32 elements
		}
		coq = fmt.Sprintf("(%d, %d, %s, %s, %s, %d%%Z)", lw, limbs, bytesToZ(b1.Bytes()), zlist(cd), coqlist(cl), n1)
	}
	return
}

type rwRaw interface {
	io.WriterTo
	io.ReaderFrom
}

// encode/decode/re-encode one object with one encoding; returns the decoded object
func objRoundTrip(rep *Report, desc c09Desc, name string, obj interface{}, fresh func() interface{}) map[string]interface{} {
	out := map[string]interface{}{}
	type enc struct {
		name  string
		write func(w io.Writer) (int64, error)
		read  func(o interface{}, r io.Reader) (int64, error)
	}
	encs := []enc{{"compressed", obj.(io.WriterTo).WriteTo, func(o interface{}, r io.Reader) (int64, error) { return o.(io.ReaderFrom).ReadFrom(r) }}}
	if wr, ok := obj.(interface {
		WriteRawTo(io.Writer) (int64, error)
	}); ok {
		encs = append(encs, enc{"raw", wr.WriteRawTo, func(o interface{}, r io.Reader) (int64, error) { return o.(io.ReaderFrom).ReadFrom(r) }})
	}
	if _, ok := obj.(interface {
		UnsafeReadFrom(io.Reader) (int64, error)
	}); ok {
		encs = append(encs, enc{"compressed-unsafe-read", obj.(io.WriterTo).WriteTo, func(o interface{}, r io.Reader) (int64, error) {
			return o.(interface {
				UnsafeReadFrom(io.Reader) (int64, error)
			}).UnsafeReadFrom(r)
		}})
	}
	if d, ok := obj.(interface {
		WriteDump(io.Writer) error
		ReadDump(io.Reader) error
	}); ok {
		encs = append(encs, enc{"dump", func(w io.Writer) (int64, error) {
			var b bytes.Buffer
			err := d.WriteDump(&b)
			n, _ := w.Write(b.Bytes())
			return int64(n), err
		}, func(o interface{}, r io.Reader) (int64, error) {
			all, _ := io.ReadAll(r)
			err := o.(interface{ ReadDump(io.Reader) error }).ReadDump(bytes.NewReader(all[:len(all)-3]))
			return int64(len(all) - 3), err
		}})
	}
	for _, e := range encs {
		key := name + ":" + e.name
		rep.Eval(desc.Target+"|"+desc.Detail+"|"+key, true)
		rep.Count("encoding:" + key)
		var b1 bytes.Buffer
		n1, err := e.write(&b1)
		if err != nil {
			rep.Fail("c09:write:"+key, err.Error(), desc)
			continue
		}
		if n1 != int64(b1.Len()) {
			rep.Fail("c09:count-write:"+key, fmt.Sprintf("writer reported %d bytes, wrote %d", n1, b1.Len()), desc)
		}
		o2 := fresh()
		rd := bytes.NewReader(append(append([]byte{}, b1.Bytes()...), 1, 2, 3))
		var n2 int64
		if p := catchPanic(func() { n2, err = e.read(o2, rd) }); p != "" {
			rep.Fail("c09:read-panic:"+key, p, desc)
			continue
		}
		if err != nil {
			rep.Fail("c09:read:"+key, err.Error(), desc)
			continue
		}
		if e.name != "dump" && (n2 != int64(b1.Len()) || rd.Len() != 3) {
			rep.Fail("c09:count-read:"+key, fmt.Sprintf("reader reported %d bytes of %d, %d left (expected 3)", n2, b1.Len(), rd.Len()), desc)
		}
		var b2 bytes.Buffer
		if e.name == "raw" {
			_, err = o2.(interface {
				WriteRawTo(io.Writer) (int64, error)
			}).WriteRawTo(&b2)
		} else if e.name == "dump" {
			err = o2.(interface{ WriteDump(io.Writer) error }).WriteDump(&b2)
		} else {
			_, err = o2.(io.WriterTo).WriteTo(&b2)
		}
		if err != nil || !bytes.Equal(b1.Bytes(), b2.Bytes()) {
			rep.Fail("c09:reencode:"+key, fmt.Sprintf("re-encoding differs (err=%v, %d vs %d bytes)", err, b1.Len(), b2.Len()), desc)
		}
		out[e.name] = o2
	}
	return out
}

type manyInputs struct {
	X []frontend.Variable
	Y frontend.Variable `gnark:",public"`
}

func (c *manyInputs) Define(api frontend.API) error {
	acc := c.X[0]
	for i := 1; i < len(c.X); i += 2 {
		if i+1 < len(c.X) {
			acc = api.Add(acc, c.X[i], c.X[i+1])
		} else {
			acc = api.Add(acc, c.X[i])
		}
	}
	api.AssertIsEqual(acc, c.Y)
	return nil
}

type bigTable struct {
	I frontend.Variable
	V frontend.Variable `gnark:",public"`
}

func (c *bigTable) Define(api frontend.API) error {
	t := logderivlookup.New(api)
	for i := 0; i < 1<<16; i++ {
		t.Insert(i * 3 % 65521)
	}
	api.AssertIsEqual(t.Lookup(c.I)[0], c.V)
	return nil
}

type sqCircuit struct {
	X frontend.Variable
	Y frontend.Variable `gnark:",public"`
}

func (c *sqCircuit) Define(api frontend.API) error {
	api.AssertIsEqual(api.Mul(c.X, c.X), c.Y)
	return nil
}

type sqCommitCircuit struct {
	X, W frontend.Variable
	Y    frontend.Variable `gnark:",public"`
}

func (c *sqCommitCircuit) Define(api frontend.API) error {
	api.AssertIsEqual(api.Mul(c.X, c.X), c.Y)
	cm, err := api.(frontend.Committer).Commit(c.X, c.W, c.Y)
	if err != nil {
		return err
	}
	api.AssertIsDifferent(cm, c.W)
	return nil
}

func keysRoundTrip(rep *Report, id ecc.ID, withCommit bool) {
	q := id.ScalarField()
	var circ, asg frontend.Circuit
	circ, asg = &sqCircuit{}, &sqCircuit{X: 3, Y: 9}
	if withCommit {
		circ, asg = &sqCommitCircuit{}, &sqCommitCircuit{X: 3, W: 5, Y: 9}
	}
	full, _ := frontend.NewWitness(asg, q)
	pub, _ := full.Public()
	detail := fmt.Sprintf("commit=%v", withCommit)
	// ---------------- groth16
	{
		desc := c09Desc{"groth16", id.String(), detail}
		ccs, err := frontend.Compile(q, r1cs.NewBuilder[constraint.U64], circ)
		if err != nil {
			rep.Fail("harness:compile", err.Error(), desc)
			return
		}
		pk, vk, err := groth16.Setup(ccs)
		if err != nil {
			rep.Fail("harness:setup", err.Error(), desc)
			return
		}
		proof, err := groth16.Prove(ccs, pk, full)
		if err != nil {
			rep.Fail("harness:prove", err.Error(), desc)
			return
		}
		pks := objRoundTrip(rep, desc, "pk", pk, func() interface{} { return groth16.NewProvingKey(id) })
		vks := objRoundTrip(rep, desc, "vk", vk, func() interface{} { return groth16.NewVerifyingKey(id) })
		prs := objRoundTrip(rep, desc, "proof", proof, func() interface{} { return groth16.NewProof(id) })
		// decoded system
		var sb bytes.Buffer
		ccs.WriteTo(&sb)
		ccs2 := groth16.NewCS(id)
		ccs2.ReadFrom(bytes.NewReader(sb.Bytes()))
		for en, v := range vks {
			if err := groth16.Verify(proof, v.(groth16.VerifyingKey), pub); err != nil {
				rep.Fail("c09:behaviour:g16:vk:"+en, "original proof rejected under decoded verifying key: "+err.Error(), desc)
			}
			for pn, p := range prs {
				if err := groth16.Verify(p.(groth16.Proof), v.(groth16.VerifyingKey), pub); err != nil {
					rep.Fail("c09:behaviour:g16:proof:"+pn+":vk:"+en, "decoded proof rejected under decoded verifying key: "+err.Error(), desc)
				}
			}
		}
		for pn, p := range prs {
			if err := groth16.Verify(p.(groth16.Proof), vk, pub); err != nil {
				rep.Fail("c09:behaviour:g16:proof:"+pn, "decoded proof rejected under original verifying key: "+err.Error(), desc)
			}
		}
		for en, k := range pks {
			pr2, err := groth16.Prove(ccs2, k.(groth16.ProvingKey), full)
			if err != nil {
				rep.Fail("c09:behaviour:g16:pk:"+en, "Prove with decoded system and proving key failed: "+err.Error(), desc)
				continue
			}
			if err := groth16.Verify(pr2, vk, pub); err != nil {
				rep.Fail("c09:behaviour:g16:pk:"+en, "proof made with decoded system/key rejected: "+err.Error(), desc)
			}
			rep.Count("cross-verified")
		}
	}
	// ---------------- plonk
	{
		desc := c09Desc{"plonk", id.String(), detail}
		ccs, err := frontend.Compile(q, scs.NewBuilder[constraint.U64], circ)
		if err != nil {
			rep.Fail("harness:compile", err.Error(), desc)
			return
		}
		srs, srsL, err := unsafekzg.NewSRS(ccs)
		if err != nil {
			rep.Fail("harness:srs", err.Error(), desc)
			return
		}
		pk, vk, err := plonk.Setup(ccs, srs, srsL)
		if err != nil {
			rep.Fail("harness:setup", err.Error(), desc)
			return
		}
		proof, err := plonk.Prove(ccs, pk, full)
		if err != nil {
			rep.Fail("harness:prove", err.Error(), desc)
			return
		}
		pks := objRoundTrip(rep, desc, "pk", pk, func() interface{} { return plonk.NewProvingKey(id) })
		vks := objRoundTrip(rep, desc, "vk", vk, func() interface{} { return plonk.NewVerifyingKey(id) })
		prs := objRoundTrip(rep, desc, "proof", proof, func() interface{} { return plonk.NewProof(id) })
		var sb bytes.Buffer
		ccs.WriteTo(&sb)
		ccs2 := plonk.NewCS(id)
		ccs2.ReadFrom(bytes.NewReader(sb.Bytes()))
		for en, v := range vks {
			if err := plonk.Verify(proof, v.(plonk.VerifyingKey), pub); err != nil {
				rep.Fail("c09:behaviour:plonk:vk:"+en, "original proof rejected under decoded verifying key: "+err.Error(), desc)
			}
			for pn, p := range prs {
				if err := plonk.Verify(p.(plonk.Proof), v.(plonk.VerifyingKey), pub); err != nil {
					rep.Fail("c09:behaviour:plonk:proof:"+pn+":vk:"+en, "decoded proof rejected under decoded verifying key: "+err.Error(), desc)
				}
			}
		}
		for pn, p := range prs {
			if err := plonk.Verify(p.(plonk.Proof), vk, pub); err != nil {
				rep.Fail("c09:behaviour:plonk:proof:"+pn, "decoded proof rejected under original verifying key: "+err.Error(), desc)
			}
		}
		for en, k := range pks {
			pr2, err := plonk.Prove(ccs2, k.(plonk.ProvingKey), full)
			if err != nil {
				rep.Fail("c09:behaviour:plonk:pk:"+en, "Prove with decoded system and proving key failed: "+err.Error(), desc)
				continue
			}
			if err := plonk.Verify(pr2, vk, pub); err != nil {
				rep.Fail("c09:behaviour:plonk:pk:"+en, "proof made with decoded system/key rejected: "+err.Error(), desc)
			}
			rep.Count("cross-verified")
		}
	}
}

func runC09(args []string) int {
	o := parseOpts(args)
	rng := NewRNG(o.Seed)
	rep := NewReport("C09")
	rep.Rule = "constraint systems compiled from seeded API programs (both builders; F_47, BN254, BLS12-377, BW6-761) and from a circuit with every instruction family (generic/specialised gates, hints, lookup table, range-check commitment, logs) are written, read back (with trailing bytes) and re-written: byte counts, byte equality, identical solutions on valid and invalid witnesses; proving keys, verifying keys and proofs of Groth16 and PLONK in every offered encoding (compressed, raw, unsafe read, dump) are cross-verified original/decoded; the container bytes are parsed and re-serialized by the Coq model; non-trivial = every case (each is a distinct object x encoding); distinct as counted"
	targets := []Target{{"tiny", tinyMod, true}, {"tiny", tinyMod, false}, {"bn254", ecc.BN254.ScalarField(), true}, {"bn254", ecc.BN254.ScalarField(), false},
		{"bls12-377", ecc.BLS12_377.ScalarField(), true}, {"bw6-761", ecc.BW6_761.ScalarField(), false}}
	nprog := 24
	if o.Thorough() {
		nprog = 300
	}
	var coqCases []string
	for pi := 0; pi < nprog; pi++ {
		t := targets[pi%len(targets)]
		p := GenProg(rng, t.Field, GenCfg{MaxOps: 7})
		ccs, cerr := compileTarget(t, NewProgCircuit(p))
		if cerr != "" {
			continue
		}
		nin := p.NbPub + p.NbSec
		var wits []witness.Witness
		for k := 0; k < 2; k++ {
			in := make([]*big.Int, nin)
			for i := range in {
				in[i] = rng.FieldElem(t.Field)
			}
			vals, _, _, _ := EvalSpec(p, t.Field, in)
			outs := make([]*big.Int, len(p.Outs))
			for i, ov := range p.Outs {
				outs[i] = vals[ov]
				if k == 1 {
					outs[i] = new(big.Int).Add(outs[i], big.NewInt(1))
				}
			}
			if w, _, err := progWitness(p, t.Field, in, outs); err == nil {
				wits = append(wits, w)
			}
		}
		if c := sysRoundTrip(rep, t, ccs, p.String(), wits); c != "" && len(coqCases) < 40 {
			coqCases = append(coqCases, c)
		}
	}
	// the rich circuit on both builders
	for _, t := range []Target{{"bn254", ecc.BN254.ScalarField(), true}, {"bn254", ecc.BN254.ScalarField(), false}, {"bls12-377", ecc.BLS12_377.ScalarField(), false}} {
		ccs, cerr := compileTarget(t, &richCircuit{})
		if cerr != "" {
			rep.Fail("harness:rich-compile", cerr, t.String())
			continue
		}
		var wits []witness.Witness
		for _, a := range []*richCircuit{{X: 5, Y: 7, Z: 35}, {X: 5, Y: 7, Z: 36}, {X: 200, Y: 3, Z: 600}} {
			w, _ := frontend.NewWitness(a, t.Field)
			wits = append(wits, w)
		}
		// systems with a commitment need the prover's hint; solving alone fails identically on both sides
		if c := sysRoundTrip(rep, t, ccs, "rich: gates+hints+lookup+rangecheck+commit+log", wits); c != "" {
			coqCases = append(coqCases, c)
		}
	}
	// GKR metadata: a system delegating gates to the GKR sub-protocol solves only through what GkrInfo records
	for _, t := range []Target{{"bn254", ecc.BN254.ScalarField(), true}, {"bn254", ecc.BN254.ScalarField(), false}} {
		c19Register()
		topo := &gkrTopo{NIn: 2, Ops: []gkrOp{{"mul2", []int{0, 1}}, {"add2", []int{2, 0}}, {c19Gate, []int{3, 1}}}}
		const n = 4
		ccs, cerr := compileTarget(t, newGkrCircuit(topo, n))
		if cerr != "" {
			rep.Fail("harness:gkr-compile", cerr, t.String())
			continue
		}
		var wits []witness.Witness
		for _, wrong := range []bool{false, true} {
			in := make([][]*big.Int, n)
			for k := range in {
				in[k] = []*big.Int{big.NewInt(int64(3 + k)), big.NewInt(int64(11 + 2*k))}
			}
			vals := topo.eval(in)
			a := newGkrCircuit(topo, n)
			for i := 0; i < topo.NIn; i++ {
				for k := 0; k < n; k++ {
					a.In[i][k] = in[k][i]
				}
			}
			for si, wv := range topo.sinks() {
				for k := 0; k < n; k++ {
					a.Out[si][k] = vals[k][wv]
				}
			}
			if wrong {
				a.Out[0][1] = 12345
			}
			w, _ := frontend.NewWitness(a, t.Field)
			wits = append(wits, w)
		}
		sysRoundTrip(rep, t, ccs, "gkr: mul / add / custom gate over 4 instances (GkrInfo)", wits)
	}
	// size thresholds: more than 2^17 inputs / constraints / calldata words, a lookup table of 2^16 entries (decoder limits)
	for _, t := range []Target{{"bn254", ecc.BN254.ScalarField(), true}, {"bn254", ecc.BN254.ScalarField(), false}} {
		nIn := 1<<17 + 5
		ccs, cerr := compileTarget(t, &manyInputs{X: make([]frontend.Variable, nIn)})
		if cerr != "" {
			rep.Fail("harness:large-compile", cerr, t.String())
			continue
		}
		a := &manyInputs{X: make([]frontend.Variable, nIn)}
		sum := 0
		for i := range a.X {
			a.X[i] = i % 7
			sum += i % 7
		}
		a.Y = sum
		w, _ := frontend.NewWitness(a, t.Field)
		sysRoundTrip(rep, t, ccs, fmt.Sprintf("large: %d secret inputs summed", nIn), []witness.Witness{w})
		ccs, cerr = compileTarget(t, &bigTable{})
		if cerr != "" {
			rep.Fail("harness:large-compile", cerr, t.String())
			continue
		}
		w, _ = frontend.NewWitness(&bigTable{I: 40000, V: 40000 * 3 % 65521}, t.Field)
		w2, _ := frontend.NewWitness(&bigTable{I: 40000, V: 1}, t.Field)
		sysRoundTrip(rep, t, ccs, "large: lookup table with 2^16 entries", []witness.Witness{w, w2})
	}
	// keys and proofs
	curves := []ecc.ID{ecc.BN254, ecc.BLS12_377}
	if o.AllCurves() {
		curves = []ecc.ID{ecc.BN254, ecc.BLS12_377, ecc.BLS12_381, ecc.BW6_761, ecc.BLS24_315, ecc.BLS24_317, ecc.BW6_633}
	}
	for _, id := range curves {
		keysRoundTrip(rep, id, false)
		keysRoundTrip(rep, id, true)
	}
	solidityRoundTrip(rep)
	var sb strings.Builder
	sb.WriteString("From Coq Require Import ZArith List Bool.\nFrom GnarkV Require Import Codec.Container Codec.ContainerCases.\nImport ListNotations.\n")
	sb.WriteString(fmt.Sprintf("Definition cases : list kcase := %s.\n", coqlistNL(coqCases)))
	sb.WriteString("Definition mism_c09 := Eval vm_compute in container_mismatches 0 cases.\nPrint mism_c09.\n")
	writeFile(o.Out, "cases_C09.v", sb.String())
	rep.CoqCases = len(coqCases)
	rep.Write(o.Out)
	return 0
}
