package main

import (
	"fmt"
	"os"

	"github.com/consensys/gnark/logger"
)

type cmdFn func(args []string) int

var commands = map[string]cmdFn{}

func main() {
	logger.Disable()
	if len(os.Args) < 2 {
		fmt.Println("usage: harness <cmd> ...")
		os.Exit(2)
	}
	f, ok := commands[os.Args[1]]
	if !ok {
		fmt.Println("unknown command", os.Args[1])
		os.Exit(2)
	}
	os.Exit(f(os.Args[2:]))
}
