package main

import (
	"fmt"
	"math/big"
	"sort"
	"strings"

	"github.com/consensys/gnark-crypto/ecc"
	"github.com/consensys/gnark/backend/witness"
	"github.com/consensys/gnark/constraint"
	"github.com/consensys/gnark/frontend"
	"github.com/consensys/gnark/frontend/cs/r1cs"
	"github.com/consensys/gnark/frontend/cs/scs"
)

func init() { commands["c06"] = runC06 }

var tinyMod = big.NewInt(47)

type Target struct {
	Name  string // tiny|bn254
	Field *big.Int
	R1CS  bool
}

func (t Target) String() string {
	if t.R1CS {
		return t.Name + "/r1cs"
	}
	return t.Name + "/scs"
}

// compileProg compiles through the real builders.  Returns the system, or the panic / error text.
func compileTarget(t Target, c frontend.Circuit, opts ...frontend.CompileOption) (ccs interface{}, errs string) {
	p := catchPanic(func() {
		var err error
		if t.Name == "tiny" {
			if t.R1CS {
				ccs, err = frontend.CompileU32(t.Field, r1cs.NewBuilder[constraint.U32], c, opts...)
			} else {
				ccs, err = frontend.CompileU32(t.Field, scs.NewBuilder[constraint.U32], c, opts...)
			}
		} else {
			if t.R1CS {
				ccs, err = frontend.Compile(t.Field, r1cs.NewBuilder[constraint.U64], c, opts...)
			} else {
				ccs, err = frontend.Compile(t.Field, scs.NewBuilder[constraint.U64], c, opts...)
			}
		}
		if err != nil {
			errs = "error: " + err.Error()
		}
	})
	if p != "" {
		errs = "panic: " + p
	}
	return
}

func progWitness(p *Prog, field *big.Int, inputs, outs []*big.Int) (witness.Witness, []*big.Int, error) {
	a := NewProgCircuit(p)
	var flat []*big.Int
	for i := 0; i < p.NbPub; i++ {
		a.Pub[i] = inputs[i]
		flat = append(flat, inputs[i])
	}
	for i := range p.Outs {
		a.Out[i] = outs[i]
		flat = append(flat, outs[i])
	}
	for i := 0; i < p.NbSec; i++ {
		a.Sec[i] = inputs[p.NbPub+i]
		flat = append(flat, inputs[p.NbPub+i])
	}
	w, err := frontend.NewWitness(a, field)
	return w, flat, err
}

func kindCode(class string) string {
	switch class {
	case "unsat":
		return "EUnsat"
	case "divzero":
		return "EDivZero"
	case "bool":
		return "EBool"
	case "hint":
		return "EHint"
	case "notallsolved":
		return "ENotAllSolved"
	}
	return "EOther"
}

func hintIndex(d *DSystem) map[uint32]int {
	ids := []int{}
	seen := map[uint32]bool{}
	for _, in := range d.Instrs {
		if in.Kind == "Hint" && !seen[in.HintID] {
			seen[in.HintID] = true
			ids = append(ids, int(in.HintID))
		}
	}
	sort.Ints(ids)
	m := map[uint32]int{}
	for i, id := range ids {
		m[uint32(id)] = i
	}
	return m
}

// instructions as Coq terms, hint ids replaced by small indices (never print a large nat literal)
func coqInstrList(d *DSystem) []string {
	hidx := hintIndex(d)
	ss := make([]string, len(d.Instrs))
	for i := range d.Instrs {
		in := d.Instrs[i]
		if in.Kind == "Hint" {
			in.HintID = uint32(hidx[in.HintID])
		}
		ss[i] = "(" + in.Coq() + ")"
	}
	return ss
}

// coqCase prints one solver case (system, witness, recorded hint calls, observation).
func coqSolverCase(d *DSystem, wit []*big.Int, obs *SolveObs) string {
	hidx := hintIndex(d)
	ss := coqInstrList(d)
	hs := []string{}
	for _, h := range obs.Hints {
		hs = append(hs, fmt.Sprintf("(%d, %s, %s, %s)", hidx[h.ID], zlist(h.In), zlist(h.Out), coqbool(!h.Fail)))
	}
	var o string
	switch obs.Class {
	case "ok":
		if d.IsR1CS {
			o = fmt.Sprintf("ObsOkR1CS %s %s %s %s", zlist(obs.W), zlist(obs.A), zlist(obs.B), zlist(obs.C))
		} else {
			o = fmt.Sprintf("ObsOkSparse %s %s %s", zlist(obs.L), zlist(obs.R), zlist(obs.O))
		}
	case "panic":
		o = "ObsPanic"
	default:
		cid := obs.CID
		if cid < 0 {
			cid = 0
		}
		o = fmt.Sprintf("ObsErr %s %d", kindCode(obs.Class), cid)
	}
	size := 1
	for size < d.NbPub+d.NbConstraints {
		size *= 2
	}
	return fmt.Sprintf("{| c_r1cs := %s; c_nbpub := %d; c_nbwires := %d; c_size := %d;\n   c_instrs := %s;\n   c_order := %s; c_wit := %s;\n   c_hints := %s;\n   c_obs := %s |}",
		coqbool(d.IsR1CS), d.NbPub, d.NbWires(), size, coqlistNL(ss), intlist(d.FlatLevels()), zlist(wit), coqlist(hs), o)
}

func obsEqual(a, b *SolveObs) string {
	if a.Class != b.Class {
		return fmt.Sprintf("class %s vs %s", a.Class, b.Class)
	}
	cmp := func(n string, x, y []*big.Int) string {
		if len(x) != len(y) {
			return n + " length"
		}
		for i := range x {
			if x[i].Cmp(y[i]) != 0 {
				return fmt.Sprintf("%s[%d]", n, i)
			}
		}
		return ""
	}
	for _, t := range []struct {
		n    string
		x, y []*big.Int
	}{{"W", a.W, b.W}, {"A", a.A, b.A}, {"B", a.B, b.B}, {"C", a.C, b.C}, {"L", a.L, b.L}, {"R", a.R, b.R}, {"O", a.O, b.O}} {
		if s := cmp(t.n, t.x, t.y); s != "" {
			return s
		}
	}
	return ""
}

type solverCaseDesc struct {
	Target  string   `json:"target"`
	Prog    string   `json:"prog"`
	Inputs  []string `json:"inputs"`
	Outs    []string `json:"outs"`
	Kind    string   `json:"witness_kind"`
	Class   string   `json:"observed"`
	SpecOK  bool     `json:"spec_ok"`
	SpecWhy string   `json:"spec_why,omitempty"`
}

func bigStrs(xs []*big.Int) []string {
	r := make([]string, len(xs))
	for i, x := range xs {
		r[i] = x.String()
	}
	return r
}

// progKindsUsed lists op kinds of the program (for the distribution)
func progKinds(p *Prog) []string {
	m := map[string]bool{}
	for _, o := range p.Ops {
		m[o.Kind] = true
	}
	r := []string{}
	for k := range m {
		r = append(r, k)
	}
	sort.Strings(r)
	return r
}

func runC06(args []string) int {
	o := parseOpts(args)
	rng := NewRNG(o.Seed)
	rep := NewReport("C06")
	rep.Rule = "programs over the frontend API are generated from the seed, compiled by the real builders (r1cs and scs; fields F_47 and BN254), and solved by the real solver on valid, output-perturbed and random witnesses with nbTasks in {1,2,3,16,512}; a case is non-trivial when the system has at least one instruction that solves a wire or fails; distinct = distinct (target, program, witness)"
	targets := []Target{{"tiny", tinyMod, true}, {"tiny", tinyMod, false}, {"bn254", ecc.BN254.ScalarField(), true}, {"bn254", ecc.BN254.ScalarField(), false}}
	nprog := 40
	maxCoq := map[string]int{"tiny": 200, "bn254": 60}
	if o.Thorough() {
		nprog = 400
		maxCoq = map[string]int{"tiny": 2000, "bn254": 400}
	}
	maxInstr := map[string]int{"tiny": 400, "bn254": 60}
	coqCases := map[string][]string{"tiny": nil, "bn254": nil}
	caseIdx := map[string][]interface{}{"tiny": nil, "bn254": nil}
	tasksList := []int{2, 3, 16, 512}

	type wcase struct {
		kind   string
		inputs []*big.Int
		outs   []*big.Int
	}
	solveCases := func(t Target, p *Prog, ccs interface{}, d *DSystem, wcs []wcase) {
		for _, wc := range wcs {
			w, flat, err := progWitness(p, t.Field, wc.inputs, wc.outs)
			if err != nil {
				rep.Fail("harness:witness", err.Error(), p.String())
				continue
			}
			obs := SolveCapture(ccs, w, 1)
			specVals, specOK, free, why := EvalSpec(p, t.Field, wc.inputs)
			_ = specVals
			if wc.kind == "perturbed-out" && specOK {
				specOK, why = false, "exposed output differs"
			}
			desc := solverCaseDesc{t.String(), p.String(), bigStrs(wc.inputs), bigStrs(wc.outs), wc.kind, obs.Class, specOK, why}
			key := fmt.Sprintf("%s|%s|%v|%v", t, p, wc.inputs, wc.outs)
			rep.Eval(key, len(d.Instrs) > 0)
			rep.Count("solve:" + obs.Class)
			rep.Sample(desc)
			// --- property oracle (model-independent)
			if obs.Class == "panic" {
				rep.Fail("solver-panic:"+obs.Msg, "Solve panicked", desc)
			}
			if obs.Class == "ok" {
				if s := CheckSolution(d, flat, obs); s != "" {
					rep.Fail("solver-ok-unsat:"+t.String(), "Solve succeeded but "+s, desc)
				}
			} else if obs.Class != "panic" && specOK {
				// failure although every assertion of the program holds under the documented meaning:
				// no constraint is violated by the honest extension
				sig := "solver-fails-on-satisfiable:" + t.String() + ":" + obs.Class
				if free {
					sig = "solver-fails-on-satisfiable:divunchecked-0-0:" + t.String() + ":" + obs.Class
				}
				rep.Fail(sig, "Solve failed ("+obs.Msg+") although all assertions hold", desc)
			}
			// --- schedule independence
			for _, nt := range tasksList {
				o2 := SolveCapture(ccs, w, nt)
				if obs.Class == "ok" || o2.Class == "ok" {
					if s := obsEqual(obs, o2); s != "" {
						rep.Fail("solver-schedule-dependent", fmt.Sprintf("nbTasks=%d differs from nbTasks=1 in %s", nt, s), desc)
					}
				} else if (obs.Class == "panic") != (o2.Class == "panic") {
					rep.Fail("solver-schedule-dependent", fmt.Sprintf("nbTasks=%d: %s vs %s", nt, obs.Class, o2.Class), desc)
				}
				rep.Count(fmt.Sprintf("nbTasks:%d", nt))
			}
			// --- Coq case
			if len(coqCases[t.Name]) < maxCoq[t.Name] && len(d.Instrs) <= maxInstr[t.Name] {
				coqCases[t.Name] = append(coqCases[t.Name], coqSolverCase(d, flat, obs))
				caseIdx[t.Name] = append(caseIdx[t.Name], desc)
			}
		}
	}

	for pi := 0; pi < nprog; pi++ {
		t := targets[pi%len(targets)]
		cfg := GenCfg{MaxOps: 8}
		if pi%7 == 6 {
			cfg.MaxOps = 70 // long programs: levels with > 50 instructions exercise the parallel path
			cfg.Kinds = []string{"Add", "Mul", "Sub", "IsZero", "Select", "Xor", "Hint2", "ToBinary"}
		}
		p := GenProg(rng, t.Field, cfg)
		ccs, cerr := compileTarget(t, NewProgCircuit(p))
		if cerr != "" {
			rep.Count("compile:" + strings.SplitN(cerr, ":", 2)[0])
			continue
		}
		rep.Count("compiled:" + t.String())
		d := DumpSystem(ccs)
		for _, k := range progKinds(p) {
			rep.Count("op:" + k)
		}
		if d.HasOther {
			rep.Count("skipped:unmodelled-instruction")
			continue
		}
		nin := p.NbPub + p.NbSec
		// witnesses
		var wcs []wcase
		for k := 0; k < 3; k++ {
			in := make([]*big.Int, nin)
			for i := range in {
				in[i] = rng.FieldElem(t.Field)
				if k == 1 && rng.Intn(2) == 0 {
					in[i] = big.NewInt(int64(rng.Intn(2)))
				}
				if k == 2 {
					in[i] = big.NewInt(0) // all-zero: 0/0 and zero-divisor branches
				}
			}
			vals, _, _, _ := EvalSpec(p, t.Field, in)
			outs := make([]*big.Int, len(p.Outs))
			for i, ov := range p.Outs {
				outs[i] = vals[ov]
			}
			wcs = append(wcs, wcase{"spec-outs", in, outs})
			if len(outs) > 0 {
				bad := make([]*big.Int, len(outs))
				copy(bad, outs)
				j := rng.Intn(len(outs))
				bad[j] = new(big.Int).Add(outs[j], big.NewInt(int64(1+rng.Intn(3))))
				bad[j].Mod(bad[j], t.Field)
				wcs = append(wcs, wcase{"perturbed-out", in, bad})
			}
		}
		solveCases(t, p, ccs, d, wcs)
	}
	// ---- zero denominators: division-like calls whose divisor (a variable or a derived expression) is 0 while the
	// numerator is not, 0/0, and regular values, on every target: the solver must fail exactly when a constraint is
	// violated, and a success must satisfy every row / gate (the branch of the sparse solver where the coefficient of
	// the wire to solve evaluates to 0)
	{
		v := func(i int) Arg { return Arg{V: i} }
		for _, t := range targets {
			for _, kind := range []string{"DivUnchecked", "Div", "Inverse"} {
				for shape := 0; shape < 3; shape++ {
					var p *Prog
					switch {
					case kind == "Inverse" && shape == 0:
						p = &Prog{NbPub: 0, NbSec: 2, Ops: []Op{{Kind: kind, Args: []Arg{v(1)}}}, Outs: []int{2}}
					case kind == "Inverse":
						p = &Prog{NbPub: 0, NbSec: 2, Ops: []Op{{Kind: "Sub", Args: []Arg{v(1), v(0)}}, {Kind: kind, Args: []Arg{v(2)}}}, Outs: []int{3}}
					case shape == 0:
						p = &Prog{NbPub: 0, NbSec: 2, Ops: []Op{{Kind: kind, Args: []Arg{v(0), v(1)}}}, Outs: []int{2}}
					case shape == 1: // derived divisor
						p = &Prog{NbPub: 0, NbSec: 2, Ops: []Op{{Kind: "Sub", Args: []Arg{v(1), v(0)}}, {Kind: kind, Args: []Arg{v(0), v(2)}}}, Outs: []int{3}}
					default: // derived numerator and divisor, result used again
						p = &Prog{NbPub: 0, NbSec: 2, Ops: []Op{{Kind: "Mul", Args: []Arg{v(0), v(0)}}, {Kind: "Sub", Args: []Arg{v(1), v(0)}}, {Kind: kind, Args: []Arg{v(2), v(3)}}, {Kind: "Add", Args: []Arg{v(4), v(0)}}}, Outs: []int{5}}
					}
					ccs, cerr := compileTarget(t, NewProgCircuit(p))
					if cerr != "" {
						rep.Count("compile:" + strings.SplitN(cerr, ":", 2)[0])
						continue
					}
					d := DumpSystem(ccs)
					var wcs []wcase
					for _, in := range [][2]int64{{5, 0}, {0, 0}, {0, 3}, {5, 5}, {3, 5}, {1, 1}} {
						inputs := []*big.Int{big.NewInt(in[0]), big.NewInt(in[1])}
						vals, _, _, _ := EvalSpec(p, t.Field, inputs)
						outs := []*big.Int{vals[p.Outs[0]]}
						wcs = append(wcs, wcase{"zero-denominator", inputs, outs})
						wcs = append(wcs, wcase{"perturbed-out", inputs, []*big.Int{new(big.Int).Mod(new(big.Int).Add(outs[0], big.NewInt(1)), t.Field)}})
					}
					rep.Count("source:zero-denominator")
					solveCases(t, p, ccs, d, wcs)
				}
			}
		}
	}
	// ---- extra sources: lookup tables (stateful blueprint) and hand-built systems restored from bytes
	solveOne := func(t Target, ccs interface{}, w witness.Witness, flat []*big.Int, desc solverCaseDesc, expectOK int, expectedW []*big.Int) {
		d := DumpSystem(ccs)
		obs := SolveCapture(ccs, w, 1)
		desc.Class = obs.Class
		rep.Eval(fmt.Sprintf("%s|%s|%v", t, desc.Prog, flat), true)
		rep.Count("solve:" + obs.Class)
		rep.Count("source:" + desc.Kind)
		rep.Sample(desc)
		if obs.Class == "panic" {
			rep.Fail("solver-panic:"+obs.Msg, "Solve panicked", desc)
		}
		if obs.Class == "ok" {
			if s := CheckSolution(d, flat, obs); s != "" {
				rep.Fail("solver-ok-unsat:"+t.String(), "Solve succeeded but "+s, desc)
			}
			if expectedW != nil {
				for i := range expectedW {
					if i < len(obs.W) && obs.W[i].Cmp(expectedW[i]) != 0 {
						rep.Fail("solver-wrong-wire:"+t.String(), fmt.Sprintf("wire %d: solver assigned %s, the unique satisfying value is %s", i, obs.W[i], expectedW[i]), desc)
						break
					}
				}
			}
			if expectOK == 0 {
				rep.Fail("solver-accepts-unsat:"+t.String()+":"+desc.Kind, "Solve succeeded on an assignment that violates the circuit", desc)
			}
		} else if obs.Class != "panic" && expectOK == 1 {
			rep.Fail("solver-fails-on-satisfiable:"+t.String()+":"+desc.Kind+":"+obs.Class, "Solve failed ("+obs.Msg+") although a satisfying extension exists", desc)
		}
		for _, nt := range tasksList {
			o2 := SolveCapture(ccs, w, nt)
			if obs.Class == "ok" || o2.Class == "ok" {
				if s := obsEqual(obs, o2); s != "" {
					rep.Fail("solver-schedule-dependent", fmt.Sprintf("nbTasks=%d differs from nbTasks=1 in %s", nt, s), desc)
				}
			}
		}
		if !d.HasOther && len(coqCases[t.Name]) < maxCoq[t.Name]+120 && len(d.Instrs) <= maxInstr[t.Name]*2 {
			coqCases[t.Name] = append(coqCases[t.Name], coqSolverCase(d, flat, obs))
			caseIdx[t.Name] = append(caseIdx[t.Name], desc)
		}
	}
	bi := func(x int64) *big.Int { return big.NewInt(x) }
	for mode := 0; mode < 3; mode++ {
		for _, t := range targets {
			if t.Name == "tiny" {
				continue // the log-derivative argument needs MiMC, which is only offered on the curve fields
			}
			ccs, cerr := compileTarget(t, &lookupCircuit{mode: mode})
			if cerr != "" {
				rep.Fail("harness:lookup-compile", cerr, t.String())
				continue
			}
			rep.Eval(fmt.Sprintf("lookup-levels|%s|%d", t, mode), true)
			if s := checkLookupLevels(ccs); s != "" {
				rep.Fail("c06:lookup-level-order:"+t.String(), "a lookup instruction is scheduled no later than a wire it reads (its outcome then depends on the workers' interleaving): "+s,
					solverCaseDesc{Target: t.String(), Prog: fmt.Sprintf("lookup table mode %d", mode), Kind: "lookup"})
			}
			for qi, q := range [][3]int64{{0, 4, 1}, {2, 3, 1}, {1, 1, 1}, {1, 4, 0}, {0, 7, -1}, {1, 3, 1}, {0, 4, 1}} {
				i0, i1, ok := q[0], q[1], q[2]
				// the table entries depend on the witness: one compiled system is solved with different tables in turn
				ta, tb, tc := int64(3+qi), int64(4+2*qi), int64(5+3*qi)
				table := []int64{ta, ta + tb, 7, tc, tb * tc}
				r0, r1 := int64(0), int64(0)
				if i0 < 5 {
					r0 = table[i0]
				}
				if i1 < 5 {
					r1 = table[i1]
				}
				if ok == 0 {
					r1++
				}
				a := &lookupCircuit{A: ta, B: tb, C: tc, I0: i0, I1: i1, R0: r0, R1: r1}
				w, err := frontend.NewWitness(a, t.Field)
				if err != nil {
					continue
				}
				flat := []*big.Int{bi(r0), bi(r1), bi(ta), bi(tb), bi(tc), bi(i0), bi(i1)}
				expect := int(ok)
				if ok == -1 {
					expect = 0
				}
				solveOne(t, ccs, w, flat, solverCaseDesc{Target: t.String(), Prog: fmt.Sprintf("lookup table mode %d", mode), Inputs: bigStrs(flat), Kind: "lookup"}, expect, nil)
			}
		}
	}
	nhand := 24
	if o.Thorough() {
		nhand = 400
	}
	for hi := 0; hi < nhand; hi++ {
		t := targets[hi%len(targets)]
		hb := genHandBuilt(rng, t)
		srcs := []struct {
			name string
			ccs  interface{}
		}{{"hand-built", hb.ccs}}
		if dec, err := restoreFromBytes(t, hb.ccs); err == nil {
			srcs = append(srcs, struct {
				name string
				ccs  interface{}
			}{"restored-from-bytes", dec})
		} else {
			rep.Fail("c06:restore-error", err.Error(), hb.desc)
		}
		for _, src := range srcs {
			w := witnessFromValues(t.Field, hb.nbPub, hb.wit)
			solveOne(t, src.ccs, w, hb.wit, solverCaseDesc{Target: t.String(), Prog: hb.desc, Inputs: bigStrs(hb.wit), Kind: src.name}, 1, hb.expected)
			// a perturbed witness: whatever the verdict, a success must come with a satisfying solution
			bad := append([]*big.Int{}, hb.wit...)
			k := rng.Intn(len(bad))
			bad[k] = new(big.Int).Add(bad[k], big.NewInt(1))
			bad[k].Mod(bad[k], t.Field)
			solveOne(t, src.ccs, witnessFromValues(t.Field, hb.nbPub, bad), bad, solverCaseDesc{Target: t.String(), Prog: hb.desc, Inputs: bigStrs(bad), Kind: src.name + "+perturbed"}, -1, nil)
		}
	}
	// write cases
	var sb strings.Builder
	sb.WriteString("From Coq Require Import ZArith List Bool.\nFrom GnarkV Require Import Base.Res Base.Zp CS.Solver CS.SolverZp.\nImport ListNotations.\n")
	for _, name := range []string{"tiny", "bn254"} {
		mod := tinyMod
		if name == "bn254" {
			mod = ecc.BN254.ScalarField()
		}
		sb.WriteString(fmt.Sprintf("Definition cases_%s : list scase := %s.\n", name, coqlistNL(coqCases[name])))
		if name == "tiny" {
			sb.WriteString("Definition mism_tiny := Eval vm_compute in mismatches_f47 cases_tiny.\nPrint mism_tiny.\n")
		} else {
			sb.WriteString(fmt.Sprintf("Definition mism_%s := Eval vm_compute in mismatches_raw %s%%Z cases_%s.\nPrint mism_%s.\n", name, mod.String(), name, name))
		}
		rep.CoqCases += len(coqCases[name])
		rep.Extra["case_index_"+name] = caseIdx[name]
	}
	writeFile(o.Out, "cases_C06.v", sb.String())
	rep.Write(o.Out)
	return 0
}
