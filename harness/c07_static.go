package main

import (
	"fmt"
	"math/big"

	"github.com/consensys/gnark-crypto/ecc"
	"github.com/consensys/gnark/backend/witness"
	"github.com/consensys/gnark/frontend"
	"github.com/consensys/gnark/std/math/emulated"
	"github.com/consensys/gnark/std/math/emulated/emparams"
)

// static circuit types: JSON round trip (schema.New does not look through interface{} fields, so
// the generated types cannot exercise it) and custom types with init hooks (emulated elements).

type stInner struct {
	P frontend.Variable `gnark:"p,public"`
	Q [2]frontend.Variable
	R []frontend.Variable `gnark:",secret"`
	S frontend.Variable   `gnark:"-"`
}
type stNested struct {
	A frontend.Variable `gnark:",public"`
	I stInner
	J [2]struct {
		U frontend.Variable
		V frontend.Variable `gnark:"vv"`
	} `gnark:"jj,public"`
	Z frontend.Variable
}

func (c *stNested) Define(api frontend.API) error { return nil }

type stEmu struct {
	B frontend.Variable
	A emulated.Element[emparams.Secp256k1Fp] `gnark:",public"`
	C [2]emulated.Element[emparams.Secp256k1Fp]
	D frontend.Variable `gnark:",public"`
}

func (c *stEmu) Define(api frontend.API) error { return nil }

// nested arrays / slices with different lengths at consecutive levels
type stMatrix struct {
	M [2][3]frontend.Variable `gnark:",public"`
	N [][]frontend.Variable
	T [3][1][2]frontend.Variable
	S frontend.Variable
}

func (c *stMatrix) Define(api frontend.API) error { return nil }

type stBase struct {
	B frontend.Variable
}
type stWithEmbedded struct {
	stBase
	Z frontend.Variable `gnark:",public"`
}

func (c *stWithEmbedded) Define(api frontend.API) error { return nil }

func jsonRoundTrip(rep *Report, name string, asg, empty frontend.Circuit, q *big.Int) {
	desc := map[string]interface{}{"static": name}
	rep.Eval("static:"+name, true)
	w, err := frontend.NewWitness(asg, q)
	if err != nil {
		rep.Fail("c07:static-witness", err.Error(), desc)
		return
	}
	vec := vecToBig(w.Vector(), q)
	sch, err := frontend.NewSchema(empty)
	if err != nil {
		rep.Fail("c07:static-schema:"+name, err.Error(), desc)
		return
	}
	var js []byte
	if p := catchPanic(func() { js, err = w.ToJSON(sch) }); p != "" {
		rep.Fail("c07:json-panic:"+name, "ToJSON panicked: "+p, desc)
		return
	}
	if err != nil {
		rep.Fail("c07:json:"+name, "ToJSON: "+err.Error(), desc)
		return
	}
	w2, _ := witness.New(q)
	if p := catchPanic(func() { err = w2.FromJSON(sch, js) }); p != "" {
		rep.Fail("c07:json-panic:"+name, "FromJSON panicked: "+p, desc)
		return
	}
	if err != nil {
		rep.Fail("c07:json:"+name, "FromJSON: "+err.Error()+" on "+string(js), desc)
	} else if fmt.Sprint(vecToBig(w2.Vector(), q)) != fmt.Sprint(vec) {
		rep.Fail("c07:json-roundtrip:"+name, fmt.Sprintf("JSON round trip changed the vector: %v -> %s -> %v", vec, js, vecToBig(w2.Vector(), q)), desc)
	}
	rep.Count("static:json-checked")
}

func limbsOf(v *big.Int, nb int, bits uint) []*big.Int {
	out := make([]*big.Int, nb)
	mask := new(big.Int).Sub(new(big.Int).Lsh(big.NewInt(1), bits), big.NewInt(1))
	t := new(big.Int).Set(v)
	for i := range out {
		out[i] = new(big.Int).And(t, mask)
		t.Rsh(t, bits)
	}
	return out
}

func runC07Static(rep *Report) {
	q := ecc.BN254.ScalarField()
	bi := func(x int64) *big.Int { return big.NewInt(x) }
	// --- nested static type: order + JSON
	a := &stNested{A: 1, I: stInner{P: 2, Q: [2]frontend.Variable{3, 4}, R: []frontend.Variable{5, 6, 7}, S: 99}, Z: 12}
	a.J[0].U, a.J[0].V, a.J[1].U, a.J[1].V = 8, 9, 10, 11
	want := []int64{1, 2, 8, 9, 10, 11 /* secret: */, 3, 4, 5, 6, 7, 12}
	w, err := frontend.NewWitness(a, q)
	desc := map[string]interface{}{"static": "stNested"}
	rep.Eval("static:stNested", true)
	if err != nil {
		rep.Fail("c07:static-witness", err.Error(), desc)
		return
	}
	vec := vecToBig(w.Vector(), q)
	ok := len(vec) == len(want)
	for i := 0; ok && i < len(vec); i++ {
		ok = vec[i].Cmp(bi(want[i])) == 0
	}
	if !ok {
		rep.Fail("c07:static-order", fmt.Sprintf("witness %v, expected %v", vec, want), desc)
	}
	empty := &stNested{I: stInner{R: make([]frontend.Variable, 3)}}
	sch, err := frontend.NewSchema(empty)
	if err != nil {
		rep.Fail("c07:static-schema", err.Error(), desc)
		return
	}
	js, err := w.ToJSON(sch)
	if err != nil {
		rep.Fail("c07:json", "ToJSON: "+err.Error(), desc)
		return
	}
	w2, _ := witness.New(q)
	if err := w2.FromJSON(sch, js); err != nil {
		rep.Fail("c07:json", "FromJSON: "+err.Error(), desc)
	} else if fmt.Sprint(vecToBig(w2.Vector(), q)) != fmt.Sprint(vec) {
		rep.Fail("c07:json-roundtrip", fmt.Sprintf("JSON round trip changed the vector: %s", js), desc)
	}
	pw, _ := w.Public()
	jp, err := pw.ToJSON(sch)
	if err == nil {
		w3, _ := witness.New(q)
		if err := w3.FromJSON(sch, jp); err != nil || fmt.Sprint(vecToBig(w3.Vector(), q)) != fmt.Sprint(vec[:6]) {
			rep.Fail("c07:json-roundtrip", fmt.Sprintf("public JSON round trip: %v %s", err, jp), desc)
		}
	} else {
		rep.Fail("c07:json", "public ToJSON: "+err.Error(), desc)
	}
	rep.Count("static:json-checked")
	// --- nested arrays with different dimensions, embedded structs
	mk := func() *stMatrix {
		m := &stMatrix{N: [][]frontend.Variable{make([]frontend.Variable, 3), make([]frontend.Variable, 3)}}
		return m
	}
	ma := mk()
	k := int64(10)
	for i := 0; i < 2; i++ {
		for j := 0; j < 3; j++ {
			ma.M[i][j] = k
			ma.N[i][j] = k + 100
			k++
		}
	}
	for i := 0; i < 3; i++ {
		for j := 0; j < 2; j++ {
			ma.T[i][0][j] = k + 200
			k++
		}
	}
	ma.S = 999
	jsonRoundTrip(rep, "stMatrix", ma, mk(), q)
	jsonRoundTrip(rep, "stWithEmbedded", &stWithEmbedded{stBase: stBase{B: 4}, Z: 5}, &stWithEmbedded{}, q)
	// --- custom types with init hooks
	v1, _ := new(big.Int).SetString("123456789abcdef0fedcba9876543210deadbeefcafebabe0123456789abcdef", 16)
	v2 := big.NewInt(77)
	v3, _ := new(big.Int).SetString("ffffffffffffffffffffffffffffffffffffffffffffffffffffffff", 16)
	e := &stEmu{B: 5, A: emulated.ValueOf[emparams.Secp256k1Fp](v1), D: 6}
	e.C[0], e.C[1] = emulated.ValueOf[emparams.Secp256k1Fp](v2), emulated.ValueOf[emparams.Secp256k1Fp](v3)
	we, err := frontend.NewWitness(e, q)
	rep.Eval("static:stEmu", true)
	d2 := map[string]interface{}{"static": "stEmu"}
	if err != nil {
		rep.Fail("c07:static-witness", err.Error(), d2)
		return
	}
	var exp []*big.Int
	exp = append(exp, limbsOf(v1, 4, 64)...)
	exp = append(exp, bi(6), bi(5))
	exp = append(exp, limbsOf(v2, 4, 64)...)
	exp = append(exp, limbsOf(v3, 4, 64)...)
	if fmt.Sprint(vecToBig(we.Vector(), q)) != fmt.Sprint(exp) {
		rep.Fail("c07:static-order", fmt.Sprintf("emulated-element witness %v, expected %v", vecToBig(we.Vector(), q), exp), d2)
	}
	rep.Count("static:init-hook-checked")
}
