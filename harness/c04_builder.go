package main

// C04: tie of the Gallina builder model (coq/theories/Frontend/BuilderR1CS.v) to the real R1CS
// builder.  Programs over the modelled core of the API are compiled by the real builder; the
// emitted system (rows, linear expressions, hint instructions, number of wires) or the
// compile-time panic is written next to the program, and Coq re-runs the model builder on the
// program and compares instruction by instruction.

import (
	"fmt"
	"math/big"
	"strings"

	"github.com/consensys/gnark-crypto/ecc"
	"github.com/consensys/gnark/frontend"
)

var builderCoreKinds = []string{"Add", "Sub", "Neg", "Mul", "MulAcc", "Div", "DivUnchecked", "Inverse", "FromBinary",
	"Xor", "Or", "And", "Select", "Lookup2", "IsZero", "AssertIsEqual", "AssertIsDifferent", "AssertIsBoolean", "Hint2",
	"ToBinary", "Cmp", "AssertIsLessOrEqual"} // the last three: Frontend/BuilderR1CSBits.v (tied, outside the proved fragment)

func progInCore(p *Prog) bool {
	for _, op := range p.Ops {
		ok := false
		for _, k := range builderCoreKinds {
			if k == op.Kind {
				ok = true
			}
		}
		if !ok {
			return false
		}
	}
	return true
}

// on the curve fields a full-width decomposition has 254 digits: one Cmp is thousands of rows (and 40 s in the
// Coq model); the bit-level calls are exercised at full width over F_47 and at small widths on BN254
func progSmallBits(t Target, p *Prog) bool {
	if t.Name == "tiny" {
		return true
	}
	for _, op := range p.Ops {
		if op.Kind == "Cmp" || op.Kind == "AssertIsLessOrEqual" || (op.Kind == "ToBinary" && op.N > 24) {
			return false
		}
	}
	return true
}

// builderCase compiles p on target t (R1CS) and returns the Coq case, or "" when the outcome is
// not one the model speaks about (compile error that is not a panic of the builder)
func builderCase(t Target, p *Prog, thr int) (string, string) {
	opts := []frontend.CompileOption{frontend.IgnoreUnconstrainedInputs(), frontend.WithCompressThreshold(thr)}
	ccs, cerr := compileTarget(t, NewProgCircuit(p), opts...)
	ok := cerr == ""
	// frontend.Compile recovers a panic raised inside Define and returns it as an error carrying the stack
	if !ok && !strings.HasPrefix(cerr, "panic") && !strings.Contains(cerr, "parse circuit: ") {
		return "", cerr
	}
	nbw, instrs := 0, "[]"
	if ok {
		d := DumpSystem(ccs)
		if d.HasOther {
			return "", "other"
		}
		nbw = d.NbWires()
		if len(d.Instrs) > 450 {
			return "", "too-large" // 254-bit decompositions (Cmp, AssertIsLessOrEqual on the curve fields): thousands of rows per case
		}
		for i := range d.Instrs {
			d.Instrs[i].HintID = 0 // hint ids are 32-bit hashes (no nat literal); the comparison ignores them
		}
		instrs = d.CoqInstrs()
	}
	return fmt.Sprintf("(%s, %d, %d, %d, %s, %s, %s, %d, %s)", zlit(t.Field), p.NbPub, p.NbSec, thr, coqProg(p), intlist(p.Outs), coqbool(ok), nbw, instrs), cerr
}

func runBuilderTie(o *Opts, rep *Report) {
	rng := NewRNG(o.Seed + 7777)
	targets := []Target{{"tiny", tinyMod, true}, {"bn254", ecc.BN254.ScalarField(), true}}
	nprog := 150
	if o.Thorough() {
		nprog = 1200
	}
	var cases []string
	var idx []interface{}
	npanic := 0
	for pi := 0; pi < nprog; pi++ {
		t := targets[pi%2]
		cfg := GenCfg{MaxOps: 5 + 4*(pi%3), Kinds: builderCoreKinds}
		if t.Name != "tiny" {
			cfg.Kinds = builderCoreKinds[:len(builderCoreKinds)-2] // Cmp / AssertIsLessOrEqual only over F_47 (6 bits)
		}
		var p *Prog
		if pi%4 == 3 {
			// the general generator (motifs: sharing, cancellation, repeated operands), kept when inside the core
			for try := 0; try < 40; try++ {
				p = GenProg(rng, t.Field, GenCfg{MaxOps: 8})
				if progInCore(p) && progSmallBits(t, p) {
					break
				}
				p = nil
			}
		}
		if p == nil {
			for try := 0; try < 40; try++ {
				p = GenProg(rng, t.Field, cfg)
				if progSmallBits(t, p) {
					break
				}
			}
		}
		nin := p.NbPub + p.NbSec
		in := make([]*big.Int, nin)
		for i := range in {
			in[i] = big.NewInt(int64(rng.Intn(3)))
			if rng.Intn(3) == 0 {
				in[i] = rng.FieldElem(t.Field)
			}
		}
		variants := []*Prog{p, swapVariant(p)}
		if nin > 0 {
			variants = append(variants, constVariant(p, in, uint(1+rng.Intn((1<<uint(nin))-1))), constVariant(p, in, uint((1<<uint(nin))-1)))
		}
		for vi, v := range variants {
			thr := []int{300, 2, 3, 300}[(pi+vi)%4]
			c, msg := builderCase(t, v, thr)
			if c == "" {
				if len(msg) > 70 {
					msg = msg[:70]
				}
				rep.Count("builder:skipped:" + msg)
				continue
			}
			if msg != "" {
				npanic++
				if len(msg) > 90 {
					msg = msg[:90]
				}
			}
			rep.Eval(fmt.Sprintf("builder|%s|%d|%s", t, thr, v), len(v.Ops) > 0)
			rep.Count(fmt.Sprintf("builder:thr-%d", thr))
			cases = append(cases, c)
			idx = append(idx, map[string]interface{}{"target": t.String(), "prog": v.String(), "threshold": thr, "compile": msg})
		}
	}
	rep.Count("builder:cases")
	var sb strings.Builder
	sb.WriteString("From Coq Require Import ZArith List Bool.\nFrom GnarkV Require Import CS.Solver Frontend.Spec Frontend.BuilderCases.\nImport ListNotations.\n")
	const shard = 150
	for s := 0; s*shard < len(cases); s++ {
		e := (s + 1) * shard
		if e > len(cases) {
			e = len(cases)
		}
		sb.Reset()
		sb.WriteString("From Coq Require Import ZArith List Bool.\nFrom GnarkV Require Import CS.Solver Frontend.Spec Frontend.BuilderCases.\nImport ListNotations.\n")
		sb.WriteString(fmt.Sprintf("Definition cases : list bcase := %s.\n", coqlistNL(cases[s*shard:e])))
		sb.WriteString(fmt.Sprintf("Definition mism_c04_builder_%d := Eval vm_compute in bcase_mismatches %d cases.\nPrint mism_c04_builder_%d.\n", s, s*shard, s))
		writeFile(o.Out, fmt.Sprintf("cases_C04_builder_%d.v", s), sb.String())
	}
	rep.CoqCases += len(cases)
	rep.Extra["builder_model_cases"] = len(cases)
	rep.Extra["builder_model_compile_panics"] = npanic
	rep.Extra["case_index_builder"] = idx
}
