package main

// C04: tie of the Gallina builder model (coq/theories/Frontend/BuilderR1CS.v) to the real R1CS
// builder.  Programs over the modelled core of the API are compiled by the real builder; the
// emitted system (rows, linear expressions, hint instructions, number of wires) or the
// compile-time panic is written next to the program, and Coq re-runs the model builder on the
// program and compares instruction by instruction.

import (
	"encoding/json"
	"fmt"
	"math/big"
	"os"
	"path/filepath"
	"strconv"
	"strings"

	"github.com/consensys/gnark-crypto/ecc"
	"github.com/consensys/gnark/frontend"
)

var builderCoreKinds = []string{"Add", "Sub", "Neg", "Mul", "MulAcc", "Div", "DivUnchecked", "Inverse", "FromBinary",
	"Xor", "Or", "And", "Select", "Lookup2", "IsZero", "AssertIsEqual", "AssertIsDifferent", "AssertIsBoolean", "Hint2",
	"ToBinary", "Cmp", "AssertIsLessOrEqual"} // the last three: Frontend/BuilderR1CSBits.v (tied, outside the proved fragment)

func progInCore(p *Prog) bool {
	for _, op := range p.Ops {
		ok := false
		for _, k := range builderCoreKinds {
			if k == op.Kind {
				ok = true
			}
		}
		if !ok {
			return false
		}
	}
	return true
}

// on the curve fields a full-width decomposition has 254 digits: one Cmp is thousands of rows (and 40 s in the
// Coq model); the bit-level calls are exercised at full width over F_47 and at small widths on BN254
func progSmallBits(t Target, p *Prog) bool {
	if t.Name == "tiny" {
		return true
	}
	for _, op := range p.Ops {
		if op.Kind == "Cmp" || op.Kind == "AssertIsLessOrEqual" || (op.Kind == "ToBinary" && op.N > 24) {
			return false
		}
	}
	return true
}

// builderCase compiles p on target t (R1CS) and returns the Coq case, or "" when the outcome is
// not one the model speaks about (compile error that is not a panic of the builder)
func builderCase(t Target, p *Prog, thr int) (string, string) {
	opts := []frontend.CompileOption{frontend.IgnoreUnconstrainedInputs(), frontend.WithCompressThreshold(thr)}
	ccs, cerr := compileTarget(t, NewProgCircuit(p), opts...)
	ok := cerr == ""
	// frontend.Compile recovers a panic raised inside Define and returns it as an error carrying the stack
	if !ok && !strings.HasPrefix(cerr, "panic") && !strings.Contains(cerr, "parse circuit: ") {
		return "", cerr
	}
	nbw, instrs := 0, "[]"
	if ok {
		d := DumpSystem(ccs)
		if d.HasOther {
			return "", "other"
		}
		nbw = d.NbWires()
		if len(d.Instrs) > 450 {
			return "", "too-large" // 254-bit decompositions (Cmp, AssertIsLessOrEqual on the curve fields): thousands of rows per case
		}
		for i := range d.Instrs {
			d.Instrs[i].HintID = 0 // hint ids are 32-bit hashes (no nat literal); the comparison ignores them
		}
		instrs = d.CoqInstrs()
	}
	return fmt.Sprintf("(%s, %d, %d, %d, %s, %s, %s, %d, %s)", zlit(t.Field), p.NbPub, p.NbSec, thr, coqProg(p), intlist(p.Outs), coqbool(ok), nbw, instrs), cerr
}

func runBuilderTie(o *Opts, rep *Report) {
	rng := NewRNG(o.Seed + 7777)
	targets := []Target{{"tiny", tinyMod, true}, {"bn254", ecc.BN254.ScalarField(), true}}
	nprog := 150
	if o.Thorough() {
		nprog = 1200
	}
	var cases []string
	var idx []interface{}
	npanic := 0
	for pi := 0; pi < nprog; pi++ {
		t := targets[pi%2]
		cfg := GenCfg{MaxOps: 5 + 4*(pi%3), Kinds: builderCoreKinds}
		if t.Name != "tiny" {
			cfg.Kinds = builderCoreKinds[:len(builderCoreKinds)-2] // Cmp / AssertIsLessOrEqual only over F_47 (6 bits)
		}
		var p *Prog
		if pi%4 == 3 {
			// the general generator (motifs: sharing, cancellation, repeated operands), kept when inside the core
			for try := 0; try < 40; try++ {
				p = GenProg(rng, t.Field, GenCfg{MaxOps: 8})
				if progInCore(p) && progSmallBits(t, p) {
					break
				}
				p = nil
			}
		}
		if p == nil {
			for try := 0; try < 40; try++ {
				p = GenProg(rng, t.Field, cfg)
				if progSmallBits(t, p) {
					break
				}
			}
		}
		nin := p.NbPub + p.NbSec
		in := make([]*big.Int, nin)
		for i := range in {
			in[i] = big.NewInt(int64(rng.Intn(3)))
			if rng.Intn(3) == 0 {
				in[i] = rng.FieldElem(t.Field)
			}
		}
		variants := []*Prog{p, swapVariant(p)}
		if nin > 0 {
			variants = append(variants, constVariant(p, in, uint(1+rng.Intn((1<<uint(nin))-1))), constVariant(p, in, uint((1<<uint(nin))-1)))
		}
		for vi, v := range variants {
			thr := []int{300, 2, 3, 300}[(pi+vi)%4]
			c, msg := builderCase(t, v, thr)
			if c == "" {
				if len(msg) > 70 {
					msg = msg[:70]
				}
				rep.Count("builder:skipped:" + msg)
				continue
			}
			if msg != "" {
				npanic++
				if len(msg) > 90 {
					msg = msg[:90]
				}
			}
			rep.Eval(fmt.Sprintf("builder|%s|%d|%s", t, thr, v), len(v.Ops) > 0)
			rep.Count(fmt.Sprintf("builder:thr-%d", thr))
			cases = append(cases, c)
			idx = append(idx, map[string]interface{}{"target": t.String(), "prog": v.String(), "threshold": thr, "compile": msg, "prog_json": v})
		}
	}
	// FromBinary without any digit: bits.FromBase refuses it ("needs at least 1 digit"); the model raises its panic flag
	for _, t := range targets {
		for _, p := range []*Prog{
			{NbPub: 0, NbSec: 1, Ops: []Op{{Kind: "FromBinary"}}, Outs: []int{1}},
			{NbPub: 1, NbSec: 1, Ops: []Op{{Kind: "Add", Args: []Arg{{V: 0}, {V: 1}}}, {Kind: "FromBinary"}}, Outs: []int{2}},
		} {
			if c, msg := builderCase(t, p, 300); c != "" {
				if msg != "" {
					npanic++
				}
				rep.Eval(fmt.Sprintf("builder|%s|300|%s", t, p), true)
				cases = append(cases, c)
				idx = append(idx, map[string]interface{}{"target": t.String(), "prog": p.String(), "threshold": 300, "compile": "FromBinary()", "prog_json": p})
			}
		}
	}
	rep.Count("builder:cases")
	var sb strings.Builder
	sb.WriteString("From Coq Require Import ZArith List Bool.\nFrom GnarkV Require Import CS.Solver Frontend.Spec Frontend.BuilderCases.\nImport ListNotations.\n")
	const shard = 150
	for s := 0; s*shard < len(cases); s++ {
		e := (s + 1) * shard
		if e > len(cases) {
			e = len(cases)
		}
		sb.Reset()
		sb.WriteString("From Coq Require Import ZArith List Bool.\nFrom GnarkV Require Import CS.Solver Frontend.Spec Frontend.BuilderCases.\nImport ListNotations.\n")
		sb.WriteString(fmt.Sprintf("Definition cases : list bcase := %s.\n", coqlistNL(cases[s*shard:e])))
		sb.WriteString(fmt.Sprintf("Definition mism_c04_builder_%d := Eval vm_compute in bcase_mismatches %d cases.\nPrint mism_c04_builder_%d.\n", s, s*shard, s))
		writeFile(o.Out, fmt.Sprintf("cases_C04_builder_%d.v", s), sb.String())
	}
	rep.CoqCases += len(cases)
	rep.Extra["builder_model_cases"] = len(cases)
	rep.Extra["builder_model_compile_panics"] = npanic
	rep.Extra["case_index_builder"] = idx
}

// ---------------------------------------------------------------- search for a failing input after a divergence
//
// When the system emitted by the real builder differs from the Gallina builder's (the check passes the indices of
// the diverging cases), the property oracle is run on exactly these programs over every input tuple from a small
// boundary set, with the documented outputs and with a perturbed output: a divergence that changes behaviour is
// reported with the concrete program / assignment.

func init() { commands["c04search"] = runC04Search }

func runC04Search(args []string) int {
	o := parseOpts(args)
	rep := NewReport("C04")
	raw, err := os.ReadFile(filepath.Join(o.Out, "report.json"))
	if err != nil {
		fmt.Println(err)
		return 2
	}
	var prev struct {
		Extra map[string]json.RawMessage `json:"extra"`
	}
	if err := json.Unmarshal(raw, &prev); err != nil {
		fmt.Println(err)
		return 2
	}
	var idx []struct {
		Target    string `json:"target"`
		Threshold int    `json:"threshold"`
		Prog      *Prog  `json:"prog_json"`
	}
	if err := json.Unmarshal(prev.Extra["case_index_builder"], &idx); err != nil {
		fmt.Println(err)
		return 2
	}
	var want []int
	for _, f := range strings.Split(os.Getenv("VERIF_MISMATCH_IDX"), ",") {
		if n, err := strconv.Atoi(strings.TrimSpace(f)); err == nil {
			want = append(want, n)
		}
	}
	nfound := 0
	for _, ci := range want {
		if ci < 0 || ci >= len(idx) || idx[ci].Prog == nil || nfound >= 5 {
			continue
		}
		c := idx[ci]
		t := Target{"bn254", ecc.BN254.ScalarField(), true}
		if strings.HasPrefix(c.Target, "tiny") {
			t = Target{"tiny", tinyMod, true}
		}
		nin := c.Prog.NbPub + c.Prog.NbSec
		set := []*big.Int{big.NewInt(0), big.NewInt(1), big.NewInt(2), big.NewInt(3), new(big.Int).Sub(t.Field, big.NewInt(1))}
		total := 1
		for i := 0; i < nin; i++ {
			total *= len(set)
		}
		if total > 3125 {
			total = 3125
		}
		opt := frontend.WithCompressThreshold(c.Threshold)
		// first the program as it is, then with every (safely observable) variable exposed: a wrong intermediate value
		// that the program's own outputs mask becomes visible
		for pass, p := range []*Prog{c.Prog, exposeAll(c.Prog)} {
			found := searchTuples(rep, t, p, ci, c.Threshold, pass, set, total, opt)
			nfound += found
			if found > 0 {
				break
			}
		}
	}
	rep.Extra["searched_cases"] = want
	os.MkdirAll(filepath.Join(o.Out, "search"), 0o755)
	rep.Write(filepath.Join(o.Out, "search"))
	return 0
}

// exposeAll returns the program with every result variable exposed, except the variables a MulAcc may have mutated
// (its accumulator and everything that can share a slice with it through Select / Lookup2): using those afterwards
// is the documented misuse
func exposeAll(p *Prog) *Prog {
	nin := p.NbPub + p.NbSec
	unsafe := map[int]bool{}
	for _, op := range p.Ops {
		if op.Kind == "MulAcc" && !op.Args[0].Const {
			unsafe[op.Args[0].V] = true
		}
	}
	for changed := true; changed; {
		changed = false
		v := nin
		for _, op := range p.Ops {
			n := op.nres(0)
			if op.Kind == "Select" || op.Kind == "Lookup2" {
				first := 1
				if op.Kind == "Lookup2" {
					first = 2
				}
				hit := unsafe[v]
				for _, a := range op.Args[first:] {
					if !a.Const && unsafe[a.V] {
						hit = true
					}
				}
				if hit {
					if !unsafe[v] {
						unsafe[v], changed = true, true
					}
					for _, a := range op.Args[first:] {
						if !a.Const && !unsafe[a.V] {
							unsafe[a.V], changed = true, true
						}
					}
				}
			}
			v += n
		}
	}
	q := &Prog{NbPub: p.NbPub, NbSec: p.NbSec, Ops: p.Ops}
	v := nin
	for _, op := range p.Ops {
		for i := 0; i < op.nres(0); i++ {
			if !unsafe[v+i] && len(q.Outs) < 12 {
				q.Outs = append(q.Outs, v+i)
			}
		}
		v += op.nres(0)
	}
	return q
}

func searchTuples(rep *Report, t Target, p *Prog, ci, threshold, pass int, set []*big.Int, total int, opt frontend.CompileOption) int {
	nin := p.NbPub + p.NbSec
	nfound := 0
	c := struct{ Threshold int }{threshold}
	{
	tuples:
		for k := 0; k < total; k++ {
			in := make([]*big.Int, nin)
			kk := k
			for i := range in {
				in[i] = set[kk%len(set)]
				kk /= len(set)
			}
			vals, specOK, free, why := EvalSpec(p, t.Field, in)
			if free {
				continue
			}
			outs := make([]*big.Int, len(p.Outs))
			for i, ov := range p.Outs {
				outs[i] = vals[ov]
			}
			type variant struct {
				name string
				outs []*big.Int
				ok   bool
			}
			vs := []variant{{"documented-outs", outs, specOK}}
			if len(outs) > 0 && specOK {
				bad := append([]*big.Int{}, outs...)
				bad[0] = new(big.Int).Mod(new(big.Int).Add(bad[0], big.NewInt(1)), t.Field)
				vs = append(vs, variant{"wrong-out", bad, false})
			}
			for _, v := range vs {
				obs, msg := runProg(t, p, in, v.outs, opt)
				rep.Eval(fmt.Sprintf("search|%d|%v|%s", ci, in, v.name), true)
				desc := c04Desc{t.String(), p.String(), bigStrs(in), bigStrs(v.outs), fmt.Sprintf("builder-case-%d/threshold-%d/pass-%d/%s", ci, c.Threshold, pass, v.name), obs, v.ok, why}
				switch {
				case obs == "ok" && !v.ok:
					rep.Fail("c04:builder-divergence:accepts-violated:"+t.String(), "the emitted system differs from the Gallina builder's and Solve succeeds although "+map[bool]string{true: "the exposed output is wrong", false: why}[v.name == "wrong-out"], desc)
					nfound++
					break tuples
				case obs == "fail" && v.ok:
					rep.Fail("c04:builder-divergence:rejects-valid:"+t.String(), "the emitted system differs from the Gallina builder's and compile/solve fails ("+msg+") although every assertion holds and the exposed values are the documented ones", desc)
					nfound++
					break tuples
				case strings.HasPrefix(obs, "panic"):
					kinds := strings.Join(progKinds(p), "+")
					if c.Threshold == 2 && (strings.Contains(kinds, "IsZero") || strings.Contains(kinds, "Cmp")) && strings.Contains(msg, "more than one wire") {
						// the recorded finding F18 (satisfiable, not solvable in the emitted order), not this divergence
						rep.Fail("c04:solve-panic:compress-2:iszero:more-than-one-wire", "Solve panicked: "+msg, desc)
						continue tuples
					}
					rep.Fail("c04:builder-divergence:panic:"+t.String(), "the emitted system differs from the Gallina builder's and "+obs+": "+msg, desc)
					nfound++
					break tuples
				}
			}
		}
	}
	return nfound
}
