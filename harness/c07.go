package main

// C07: witness values bind to the circuit variables they were assigned to.
// Circuit struct *types* are generated at run time with reflect.StructOf from a seeded shape tree
// (nesting, arrays, slices, pointers, anonymous fields, every tag form); the generator computes,
// independently of gnark, the leaves in declaration order with their visibilities; the circuit's
// Define asserts leaf_k == constant_k.  Observed: input names of the compiled system, witness
// vectors, Public(), binary/JSON round trips, solve outcomes; the same shape goes to the Coq
// model (Schema/Walk.v) which must reproduce names, visibilities, order, errors and bytes.

import (
	"bytes"
	"fmt"
	"math/big"
	"reflect"
	"strings"

	"github.com/consensys/gnark-crypto/ecc"
	"github.com/consensys/gnark/backend/witness"
	"github.com/consensys/gnark/constraint"
	"github.com/consensys/gnark/frontend"
	"github.com/consensys/gnark/frontend/cs/r1cs"
	"github.com/consensys/gnark/frontend/cs/scs"
)

func init() { commands["c07"] = runC07 }

type shKind int

const (
	shLeaf shKind = iota
	shLeaves
	shStruct
	shSeq
	shPtr
	shIgnored
)

type shField struct {
	Name    string
	Tag     string // raw gnark tag ("" = no tag)
	HasTag  bool
	TagName string // parsed, valid override ("" = none)
	Vis     int    // 0 none/inherit, 1 secret, 2 public
	Omit    bool
	Anon    bool
	S       *shape
}

type shape struct {
	K       shKind
	N       int  // leaves count
	IsArray bool // array vs slice (leaves / seq)
	Fields  []shField
	Elems   []*shape
	Inner   *shape
}

var tVar = reflect.TypeOf((*frontend.Variable)(nil)).Elem()

type tagForm struct {
	raw    string
	name   string
	vis    int
	omit   bool
	hasTag bool
}

func genTag(r *RNG, forceVis int) tagForm {
	// forceVis: -1 free, else the visibility that keeps the tree conflict-free
	names := []string{"", "", "x", "my_name", "a.b", "Q1", "bad\"name", "sp ace"}
	nm := names[r.Intn(len(names))]
	valid := nm
	if strings.ContainsAny(nm, "\"\\") {
		valid = ""
	}
	vis := r.Intn(3)
	if forceVis >= 0 {
		if r.Intn(2) == 0 {
			vis = 0
		} else {
			vis = forceVis
		}
	}
	var opt string
	switch vis {
	case 0:
		opt = []string{"", "inherit", " inherit", "foo"}[r.Intn(4)]
	case 1:
		opt = []string{"secret", " secret", "secret ", "foo,secret"}[r.Intn(4)]
	case 2:
		opt = []string{"public", " public ", "bar, public"}[r.Intn(3)]
	}
	if nm == "" && opt == "" {
		if r.Intn(2) == 0 {
			return tagForm{hasTag: false}
		}
		return tagForm{raw: "", hasTag: true}
	}
	raw := nm
	if opt != "" {
		raw = nm + "," + opt
	}
	if raw == "-" {
		raw = "-,"
	}
	return tagForm{raw: raw, name: valid, vis: vis, hasTag: true}
}

// genShape builds a random shape; parentVis is the visibility in force (0 unset, 1 secret, 2 public);
// conflict==true allows (rarely) a conflicting tag.
func genShape(r *RNG, depth int, parentVis int, allowConflict bool) *shape {
	k := r.Intn(10)
	if depth <= 0 {
		k = r.Intn(3)
	}
	switch {
	case k == 0 || k == 1:
		return &shape{K: shLeaf}
	case k == 2:
		return &shape{K: shLeaves, N: 1 + r.Intn(3), IsArray: r.Bool()}
	case k == 3:
		return &shape{K: shIgnored}
	case k == 4:
		return &shape{K: shPtr, Inner: genStruct(r, depth-1, parentVis, allowConflict)}
	case k == 5:
		n := 1 + r.Intn(3)
		s := &shape{K: shSeq, IsArray: r.Bool()}
		proto := genShapeNoLeaf(r, depth-1, parentVis, allowConflict)
		for i := 0; i < n; i++ {
			s.Elems = append(s.Elems, proto) // Go arrays/slices are homogeneous
		}
		return s
	default:
		return genStruct(r, depth-1, parentVis, allowConflict)
	}
}

func genShapeNoLeaf(r *RNG, depth int, parentVis int, allowConflict bool) *shape {
	// element type of a non-leaf sequence: a struct or a nested leaf slice
	if r.Intn(3) == 0 {
		return &shape{K: shLeaves, N: 1 + r.Intn(3), IsArray: r.Bool()}
	}
	return genStruct(r, depth, parentVis, allowConflict)
}

func genStruct(r *RNG, depth int, parentVis int, allowConflict bool) *shape {
	s := &shape{K: shStruct}
	nf := 1 + r.Intn(4)
	for i := 0; i < nf; i++ {
		f := shField{Name: fmt.Sprintf("F%c%d", 'A'+byte(r.Intn(26)), i)}
		switch r.Intn(12) {
		case 0:
			f.Omit, f.HasTag, f.Tag = true, true, "-"
			f.S = genShape(r, depth, parentVis, allowConflict)
		case 1:
			f.Anon = true
			f.S = genStruct(r, depth-1, parentVis, allowConflict)
			if depth <= 0 {
				f.S = &shape{K: shStruct, Fields: []shField{{Name: "Inner", S: &shape{K: shLeaf}}}}
			}
		default:
			force := -1
			if parentVis != 0 {
				force = parentVis
				if allowConflict && r.Intn(15) == 0 {
					force = 3 - parentVis
				}
			}
			t := genTag(r, force)
			f.Tag, f.HasTag, f.TagName, f.Vis = t.raw, t.hasTag, t.name, t.vis
			v := parentVis
			if f.Vis != 0 {
				v = f.Vis
			}
			f.S = genShape(r, depth, v, allowConflict)
		}
		s.Fields = append(s.Fields, f)
	}
	return s
}

// ---------------------------------------------------------------- reflect types / values

func (s *shape) goType() reflect.Type {
	switch s.K {
	case shLeaf:
		return tVar
	case shLeaves:
		if s.IsArray {
			return reflect.ArrayOf(s.N, tVar)
		}
		return reflect.SliceOf(tVar)
	case shIgnored:
		return reflect.TypeOf(int(0))
	case shPtr:
		return reflect.PtrTo(s.Inner.goType())
	case shSeq:
		if s.IsArray {
			return reflect.ArrayOf(len(s.Elems), s.Elems[0].goType())
		}
		return reflect.SliceOf(s.Elems[0].goType())
	case shStruct:
		var fs []reflect.StructField
		for _, f := range s.Fields {
			sf := reflect.StructField{Name: f.Name, Type: f.S.goType(), Anonymous: f.Anon}
			if f.Anon {
				sf.Name = "Emb" + f.Name
			}
			if f.HasTag {
				sf.Tag = reflect.StructTag(`gnark:` + fmt.Sprintf("%q", f.Tag))
			}
			fs = append(fs, sf)
		}
		return reflect.StructOf(fs)
	}
	panic("kind")
}

// newValue allocates a value of the shape (slices and pointers initialised)
func (s *shape) newValue() reflect.Value {
	v := reflect.New(s.goType()).Elem()
	s.initValue(v)
	return v
}
func (s *shape) initValue(v reflect.Value) {
	switch s.K {
	case shLeaves:
		if !s.IsArray {
			v.Set(reflect.MakeSlice(v.Type(), s.N, s.N))
		}
	case shPtr:
		v.Set(reflect.New(s.Inner.goType()))
		s.Inner.initValue(v.Elem())
	case shSeq:
		if !s.IsArray {
			v.Set(reflect.MakeSlice(v.Type(), len(s.Elems), len(s.Elems)))
		}
		for i, e := range s.Elems {
			e.initValue(v.Index(i))
		}
	case shStruct:
		for i, f := range s.Fields {
			f.S.initValue(v.Field(i))
		}
	}
}

// expected leaves, computed by the generator (independent of gnark): declaration order
type expLeaf struct {
	Name string
	Vis  int // 1 secret 2 public
	Get  func(root reflect.Value) reflect.Value
}

// expected returns the leaves or conflict=true
func (s *shape) expected(path []string, vis int, get func(reflect.Value) reflect.Value) (ls []expLeaf, conflict bool) {
	lv := vis
	if lv == 0 {
		lv = 1
	}
	name := strings.Join(path, "_")
	switch s.K {
	case shLeaf:
		return []expLeaf{{name, lv, get}}, false
	case shLeaves:
		for i := 0; i < s.N; i++ {
			i := i
			ls = append(ls, expLeaf{fmt.Sprintf("%s_%d", name, i), lv, func(r reflect.Value) reflect.Value { return get(r).Index(i) }})
		}
		return ls, false
	case shIgnored:
		return nil, false
	case shPtr:
		return s.Inner.expected(path, vis, func(r reflect.Value) reflect.Value { return get(r).Elem() })
	case shSeq:
		for i, e := range s.Elems {
			i := i
			l, c := e.expected(append(append([]string{}, path...), fmt.Sprint(i)), vis, func(r reflect.Value) reflect.Value { return get(r).Index(i) })
			if c {
				return nil, true
			}
			ls = append(ls, l...)
		}
		return ls, false
	case shStruct:
		for i, f := range s.Fields {
			i := i
			g := func(r reflect.Value) reflect.Value { return get(r).Field(i) }
			if f.Anon {
				l, c := f.S.expected(path, vis, g)
				if c {
					return nil, true
				}
				ls = append(ls, l...)
				continue
			}
			if f.Omit {
				continue
			}
			v := vis
			if f.Vis != 0 {
				v = f.Vis
			}
			if vis != 0 && vis != v {
				return nil, true
			}
			nm := f.Name
			if f.TagName != "" {
				nm = f.TagName
			}
			l, c := f.S.expected(append(append([]string{}, path...), nm), v, g)
			if c {
				return nil, true
			}
			ls = append(ls, l...)
		}
		return ls, false
	}
	return nil, false
}

func (s *shape) coq() string {
	switch s.K {
	case shLeaf:
		return "SLeaf"
	case shLeaves:
		return fmt.Sprintf("(SLeaves %d)", s.N)
	case shIgnored:
		return "SIgnored"
	case shPtr:
		return "(SPtr " + s.Inner.coq() + ")"
	case shSeq:
		es := make([]string, len(s.Elems))
		for i, e := range s.Elems {
			es[i] = e.coq()
		}
		return "(SSeq " + coqlist(es) + ")"
	case shStruct:
		fs := make([]string, len(s.Fields))
		for i, f := range s.Fields {
			tn := "None"
			if f.TagName != "" {
				tn = "(Some " + coqstr(f.TagName) + ")"
			}
			nm := f.Name
			fs[i] = fmt.Sprintf("({| f_name := %s; f_tagname := %s; f_vis := %s; f_omit := %s; f_anon := %s |}, %s)",
				coqstr(nm), tn, []string{"TNone", "TSecret", "TPublic"}[f.Vis], coqbool(f.Omit), coqbool(f.Anon), f.S.coq())
		}
		return "(SStruct " + coqlist(fs) + ")"
	}
	return "SIgnored"
}

// ---------------------------------------------------------------- the circuit wrapper

type DynCircuit struct {
	X      interface{} // *dynamic struct
	leaves []expLeaf
	consts []*big.Int
}

func (c *DynCircuit) Define(api frontend.API) error {
	root := reflect.ValueOf(c.X).Elem()
	for k, l := range c.leaves {
		v := l.Get(root).Interface()
		if v == nil {
			return fmt.Errorf("leaf %s not initialised by the compiler", l.Name)
		}
		api.AssertIsEqual(v, c.consts[k])
	}
	return nil
}

func newDyn(s *shape, leaves []expLeaf, consts []*big.Int) *DynCircuit {
	v := reflect.New(s.goType())
	s.initValue(v.Elem())
	return &DynCircuit{X: v.Interface(), leaves: leaves, consts: consts}
}

// value forms accepted by the API for the same field element
func valueForm(r *RNG, k *big.Int, q *big.Int) interface{} {
	switch r.Intn(8) {
	case 0:
		return k.Int64()
	case 1:
		return new(big.Int).Set(k)
	case 2:
		return k.String()
	case 3:
		return "0x" + k.Text(16)
	case 4:
		return new(big.Int).Add(k, q) // over-modulus
	case 5:
		return new(big.Int).Sub(k, q) // negative
	case 6:
		return uint32(k.Uint64())
	default:
		return int(k.Int64())
	}
}

type c07Desc struct {
	Shape    string `json:"shape"`
	Leaves   int    `json:"leaves"`
	Conflict bool   `json:"conflict"`
	Target   string `json:"target"`
}

func runC07(args []string) int {
	o := parseOpts(args)
	rng := NewRNG(o.Seed)
	rep := NewReport("C07")
	rep.Rule = "circuit struct types are generated from the seed with reflect.StructOf (nesting <= 4, arrays, slices, pointers, anonymous fields, all tag forms incl. invalid names, rare conflicting tags); the generator's own declaration-order leaf list is the oracle; checks per shape: input names/visibilities of the compiled system, witness vector order for 3 value-form assignments, Public()/PublicOnly prefix, binary and JSON round trip, solve succeeds with matching constants and fails when two leaf values are swapped; non-trivial = shape with >= 2 leaves or a conflict; distinct = distinct shape term"
	nshapes := 300
	if o.Thorough() {
		nshapes = 3000
	}
	fields := []struct {
		name string
		q    *big.Int
	}{{"bn254", ecc.BN254.ScalarField()}, {"bls12-381", ecc.BLS12_381.ScalarField()}, {"bw6-761", ecc.BW6_761.ScalarField()}}
	var coqCases []string
	var caseIdx []interface{}
	for si := 0; si < nshapes; si++ {
		depth := 1 + rng.Intn(4)
		s := genStruct(rng, depth, 0, true)
		fld := fields[si%len(fields)]
		useR1CS := si%2 == 0
		leaves, conflict := s.expected([]string{"X"}, 0, func(r reflect.Value) reflect.Value { return r })
		// the generated struct sits behind the field X (an interface holding a pointer) of the wrapper circuit
		top := "(SStruct [({| f_name := \"X\"; f_tagname := None; f_vis := TNone; f_omit := false; f_anon := false |}, SPtr " + s.coq() + ")])"
		desc := c07Desc{top, len(leaves), conflict, fmt.Sprintf("%s/r1cs=%v", fld.name, useR1CS)}
		rep.Eval(desc.Shape, len(leaves) >= 2 || conflict)
		rep.Sample(desc)
		rep.Count(fmt.Sprintf("leaves:%d", min(len(leaves), 10)))
		consts := make([]*big.Int, len(leaves))
		for k := range consts {
			consts[k] = big.NewInt(int64(1000 + 7*k))
		}
		circuit := newDyn(s, leaves, consts)
		var ccs constraint.ConstraintSystem
		var cerr error
		p := catchPanic(func() {
			if useR1CS {
				ccs, cerr = frontend.Compile(fld.q, r1cs.NewBuilder[constraint.U64], circuit, frontend.IgnoreUnconstrainedInputs())
			} else {
				ccs, cerr = frontend.Compile(fld.q, scs.NewBuilder[constraint.U64], circuit, frontend.IgnoreUnconstrainedInputs())
			}
		})
		obsErr := p != "" || cerr != nil
		// Coq case: names + visibilities observed from the compiled system
		var pubNames, secNames []string
		if !obsErr {
			sys := sysOf(ccs)
			pubNames = append(pubNames, sys.Public...)
			if useR1CS && len(pubNames) > 0 {
				pubNames = pubNames[1:] // ONE wire
			}
			secNames = append(secNames, sys.Secret...)
		}
		qs := func(xs []string) string {
			ss := make([]string, len(xs))
			for i, x := range xs {
				ss[i] = coqstr(x)
			}
			return coqlist(ss)
		}
		coqCases = append(coqCases, fmt.Sprintf("(%s, %s, %s, %s)", top, coqbool(obsErr), qs(pubNames), qs(secNames)))
		caseIdx = append(caseIdx, desc)
		if p != "" {
			rep.Fail("c07:compile-panic", "Compile panicked: "+p, desc)
			continue
		}
		if conflict {
			rep.Count("conflict")
			if cerr == nil {
				rep.Fail("c07:conflict-accepted", "conflicting visibility tags were accepted", desc)
			}
			continue
		}
		if len(leaves) == 0 {
			rep.Count("no-leaves")
			continue
		}
		if cerr != nil {
			rep.Fail("c07:compile-error", "Compile failed on a valid shape: "+cerr.Error(), desc)
			continue
		}
		// oracle 1: names/visibility/order
		var expPub, expSec []string
		var pubIdx, secIdx []int
		for k, l := range leaves {
			if l.Vis == 2 {
				expPub = append(expPub, l.Name)
				pubIdx = append(pubIdx, k)
			} else {
				expSec = append(expSec, l.Name)
				secIdx = append(secIdx, k)
			}
		}
		if fmt.Sprint(expPub) != fmt.Sprint(pubNames) || fmt.Sprint(expSec) != fmt.Sprint(secNames) {
			rep.Fail("c07:names-order", fmt.Sprintf("compiled input names differ from declaration order: public %v vs %v, secret %v vs %v", pubNames, expPub, secNames, expSec), desc)
		}
		order := append(append([]int{}, pubIdx...), secIdx...)
		// oracle 2: witnesses
		for wi := 0; wi < 3; wi++ {
			asg := newDyn(s, leaves, consts)
			root := reflect.ValueOf(asg.X).Elem()
			for k, l := range leaves {
				l.Get(root).Set(reflect.ValueOf(valueForm(rng, consts[k], fld.q)))
			}
			w, err := frontend.NewWitness(asg, fld.q)
			if err != nil {
				rep.Fail("c07:witness-error", "NewWitness failed: "+err.Error(), desc)
				break
			}
			vec := vecToBig(w.Vector(), fld.q)
			bad := len(vec) != len(order)
			for i := 0; !bad && i < len(vec); i++ {
				bad = vec[i].Cmp(consts[order[i]]) != 0
			}
			if bad {
				rep.Fail("c07:witness-order", fmt.Sprintf("witness vector %v is not [public.., secret..] in declaration order reduced mod q", vec), desc)
			}
			// solve: every leaf carries the value assigned to its field
			if _, err := ccs.Solve(w); err != nil {
				rep.Fail("c07:binding", "a witness built from the matching assignment does not satisfy leaf_k == constant_k: "+err.Error(), desc)
			}
			// Public() and PublicOnly
			pw, err := w.Public()
			if err != nil {
				rep.Fail("c07:public", "Public() failed: "+err.Error(), desc)
			} else {
				pv := vecToBig(pw.Vector(), fld.q)
				wo, err2 := frontend.NewWitness(asg, fld.q, frontend.PublicOnly())
				var ov []*big.Int
				if err2 == nil {
					ov = vecToBig(wo.Vector(), fld.q)
				}
				if fmt.Sprint(pv) != fmt.Sprint(vec[:len(pubIdx)]) || err2 != nil || fmt.Sprint(ov) != fmt.Sprint(pv) {
					rep.Fail("c07:public-prefix", fmt.Sprintf("Public() %v / PublicOnly %v are not the public prefix of %v", pv, ov, vec), desc)
				}
			}
			// binary round trip
			data, err := w.MarshalBinary()
			if err != nil {
				rep.Fail("c07:marshal", err.Error(), desc)
			} else {
				// history on ONE witness object: Public() after the object was refilled from other bytes, and after a previously
				// returned public witness was itself overwritten, must still be the public prefix of the current vector
				var prevData []byte
				{
					other := make([]*big.Int, len(vec))
					for i := range vec {
						other[i] = new(big.Int).Add(vec[i], big.NewInt(int64(i+1)))
						other[i].Mod(other[i], fld.q)
					}
					prevData, _ = witnessFromValues(fld.q, len(pubIdx), other).MarshalBinary()
				}
				if prevData != nil && len(pubIdx) > 0 {
					wr, _ := witness.New(fld.q)
					if wr.UnmarshalBinary(prevData) == nil {
						p1, _ := wr.Public()
						if wr.UnmarshalBinary(data) == nil {
							p2, e2 := wr.Public()
							if e2 != nil || fmt.Sprint(vecToBig(p2.Vector(), fld.q)) != fmt.Sprint(vec[:len(pubIdx)]) {
								rep.Fail("c07:public-after-refill", "Public() of a witness object refilled from other bytes is not the public prefix of its current vector", desc)
							}
							if p1 != nil && p2 != nil {
								_ = p1.UnmarshalBinary(prevData) // recycle an earlier result
								p3, _ := wr.Public()
								if p3 == nil || fmt.Sprint(vecToBig(p3.Vector(), fld.q)) != fmt.Sprint(vec[:len(pubIdx)]) {
									rep.Fail("c07:public-aliased", "overwriting a previously returned public witness changes what Public() returns", desc)
								}
							}
						}
					}
					rep.Count("witness-object-reused")
				}
				w2, _ := witness.New(fld.q)
				if err := w2.UnmarshalBinary(data); err != nil {
					rep.Fail("c07:unmarshal", err.Error(), desc)
				} else if fmt.Sprint(vecToBig(w2.Vector(), fld.q)) != fmt.Sprint(vec) {
					rep.Fail("c07:binary-roundtrip", "binary round trip changed the vector", desc)
				} else {
					d2, _ := w2.MarshalBinary()
					if !bytes.Equal(d2, data) {
						rep.Fail("c07:binary-reencode", "re-encoding differs", desc)
					}
				}
				if wi == 0 && len(coqCases) < 400 {
					bs := make([]*big.Int, len(data))
					for i, b := range data {
						bs[i] = big.NewInt(int64(b))
					}
					width := (fld.q.BitLen() + 63) / 64 * 8
					coqCases = append(coqCases[:len(coqCases)-1], coqCases[len(coqCases)-1]) // keep index alignment
					rep.Extra["codec_cases"] = append(asList(rep.Extra["codec_cases"]), fmt.Sprintf("(%d, %d%%Z, %d%%Z, %s, %s)", width, len(pubIdx), len(secIdx), zlist(vec), zlist(bs)))
				}
			}
			// JSON round trip
			if sch, err := frontend.NewSchema(newDyn(s, leaves, consts)); err == nil {
				js, err := w.ToJSON(sch)
				if err != nil && strings.Contains(err.Error(), "schema is inconsistent") {
					rep.Count("json:schema-does-not-cover-interface-fields") // schema.New does not descend into interface{} fields; JSON is exercised on static types below
				} else if err != nil {
					rep.Fail("c07:json", "ToJSON: "+err.Error(), desc)
				} else {
					w3, _ := witness.New(fld.q)
					if err := w3.FromJSON(sch, js); err != nil {
						rep.Fail("c07:json", "FromJSON: "+err.Error(), desc)
					} else if fmt.Sprint(vecToBig(w3.Vector(), fld.q)) != fmt.Sprint(vec) {
						rep.Fail("c07:json-roundtrip", "JSON round trip changed the vector", desc)
					}
				}
			} else {
				rep.Count("schema-error")
			}
			rep.Count("witness-checked")
		}
		// oracle 3: swapping the values of two leaves of the same visibility must break the binding
		for _, grp := range [][]int{pubIdx, secIdx} {
			if len(grp) < 2 {
				continue
			}
			a, b := grp[rng.Intn(len(grp))], grp[rng.Intn(len(grp))]
			if a == b {
				continue
			}
			asg := newDyn(s, leaves, consts)
			root := reflect.ValueOf(asg.X).Elem()
			for k, l := range leaves {
				c := consts[k]
				if k == a {
					c = consts[b]
				} else if k == b {
					c = consts[a]
				}
				l.Get(root).Set(reflect.ValueOf(new(big.Int).Set(c)))
			}
			w, err := frontend.NewWitness(asg, fld.q)
			if err != nil {
				continue
			}
			if _, err := ccs.Solve(w); err == nil {
				rep.Fail("c07:swap-accepted", fmt.Sprintf("assignment with the values of leaves %s and %s swapped still satisfies leaf_k == constant_k", leaves[a].Name, leaves[b].Name), desc)
			}
			rep.Count("swap-checked")
		}
	}
	runC07Static(rep)
	var sb strings.Builder
	sb.WriteString("From Coq Require Import ZArith List Bool String.\nFrom GnarkV Require Import Base.Res Schema.Walk Schema.WalkCases Codec.WitnessCodec.\nImport ListNotations.\nLocal Open Scope string_scope.\n")
	sb.WriteString(fmt.Sprintf("Definition cases : list wcase := %s.\n", coqlistNL(coqCases)))
	sb.WriteString("Definition mism_c07_walk := Eval vm_compute in walk_mismatches 0 cases.\nPrint mism_c07_walk.\n")
	cc := asList(rep.Extra["codec_cases"])
	ccs := make([]string, len(cc))
	for i, c := range cc {
		ccs[i] = c.(string)
	}
	sb.WriteString(fmt.Sprintf("Definition ccases : list ccase := %s.\n", coqlistNL(ccs)))
	sb.WriteString("Definition mism_c07_codec := Eval vm_compute in codec_mismatches 0 ccases.\nPrint mism_c07_codec.\n")
	delete(rep.Extra, "codec_cases")
	writeFile(o.Out, "cases_C07.v", sb.String())
	rep.CoqCases = len(coqCases) + len(ccs)
	rep.Extra["case_index"] = caseIdx
	rep.Write(o.Out)
	return 0
}

func asList(x interface{}) []interface{} {
	if x == nil {
		return nil
	}
	return x.([]interface{})
}
