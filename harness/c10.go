package main

// C10: solving and proving are independent of scheduling and of concurrent use.

import (
	"runtime"
	"bytes"
	"fmt"
	"math/big"
	"os"
	"os/exec"
	"strings"
	"sync"
	"time"

	"github.com/consensys/gnark-crypto/ecc"
	"github.com/consensys/gnark/backend"
	"github.com/consensys/gnark/backend/groth16"
	"github.com/consensys/gnark/backend/plonk"
	"github.com/consensys/gnark/backend/witness"
	"github.com/consensys/gnark/constraint"
	"github.com/consensys/gnark/constraint/solver"
	"github.com/consensys/gnark/frontend"
	"github.com/consensys/gnark/frontend/cs/r1cs"
	"github.com/consensys/gnark/frontend/cs/scs"
	"github.com/consensys/gnark/test/unsafekzg"
)

func init() { commands["c10"] = runC10; commands["c10child"] = runC10Child }

// ---------------------------------------------------------------- stub solver driving the real lookup blueprint

type stubSolver struct {
	vals map[uint32]uint64
	outs []uint64
}

func el(x uint64) constraint.U64 { var e constraint.U64; e[0] = x; return e }

func (s *stubSolver) FromInterface(i interface{}) constraint.U64 { return el(uint64(i.(int))) }
func (s *stubSolver) ToBigInt(e constraint.U64) *big.Int         { return new(big.Int).SetUint64(e[0]) }
func (s *stubSolver) Mul(a, b constraint.U64) constraint.U64     { return el(a[0] * b[0]) }
func (s *stubSolver) Add(a, b constraint.U64) constraint.U64     { return el(a[0] + b[0]) }
func (s *stubSolver) Sub(a, b constraint.U64) constraint.U64     { return el(a[0] - b[0]) }
func (s *stubSolver) Neg(a constraint.U64) constraint.U64        { return el(-a[0]) }
func (s *stubSolver) Inverse(a constraint.U64) (constraint.U64, bool) {
	return a, a[0] == 1
}
func (s *stubSolver) One() constraint.U64                     { return el(1) }
func (s *stubSolver) IsOne(a constraint.U64) bool             { return a[0] == 1 }
func (s *stubSolver) String(a constraint.U64) string          { return fmt.Sprint(a[0]) }
func (s *stubSolver) Uint64(a constraint.U64) (uint64, bool)  { return a[0], true }
func (s *stubSolver) GetValue(cID, vID uint32) constraint.U64 { return el(s.vals[vID]) }
func (s *stubSolver) GetCoeff(cID uint32) constraint.U64      { return el(1) }
func (s *stubSolver) SetValue(vID uint32, f constraint.U64)   { s.outs = append(s.outs, f[0]) }
func (s *stubSolver) IsSolved(vID uint32) bool                { return true }
func (s *stubSolver) Read(calldata []uint32) (constraint.U64, int) {
	n := int(calldata[0])
	var r uint64
	j := 1
	for k := 0; k < n; k++ {
		r += s.vals[calldata[j+1]]
		j += 2
	}
	return el(r), j
}

// runLookupSchedule drives ONE shared BlueprintLookupHint with several stub solvers following the
// schedule (client ids; each client performs Reset, then its lookups in order), sequentially.
func runLookupSchedule(tables [][]uint64, progs [][][2]int, sched []int) (results [][]uint64, panicked string) {
	tblLen := len(tables[0])
	bp := &constraint.BlueprintLookupHint[constraint.U64]{}
	for k := 0; k < tblLen; k++ {
		bp.EntriesCalldata = append(bp.EntriesCalldata, 1, 1, uint32(k)) // entry k = 1*wire k
	}
	solvers := make([]*stubSolver, len(tables))
	pcs := make([]int, len(tables))
	for c := range tables {
		solvers[c] = &stubSolver{vals: map[uint32]uint64{}}
		for k, v := range tables[c] {
			solvers[c].vals[uint32(k)] = v
		}
	}
	panicked = catchPanic(func() {
		for _, c := range sched {
			if c >= len(tables) {
				continue
			}
			pc := pcs[c]
			if pc > len(progs[c]) {
				continue
			}
			if pc == 0 {
				bp.Reset()
			} else {
				q := progs[c][pc-1]
				solvers[c].vals[1000] = uint64(q[1]) // the query wire holds the index
				inst := constraint.Instruction{WireOffset: 2000, Calldata: []uint32{6, uint32(q[0]), 1, 1, 1, 1000}}
				if err := bp.Solve(solvers[c], inst); err != nil {
					solvers[c].outs = append(solvers[c].outs, ^uint64(0))
				}
			}
			pcs[c]++
		}
	})
	for c := range tables {
		results = append(results, solvers[c].outs)
	}
	return
}

// ---------------------------------------------------------------- circuits

type hintyCircuit struct {
	X, Y frontend.Variable
	Z    frontend.Variable `gnark:",public"`
}

func (c *hintyCircuit) Define(api frontend.API) error {
	m := api.Mul(c.X, c.Y)
	b := api.ToBinary(c.X, 16)
	s := api.FromBinary(b[:8]...)
	inv := api.Inverse(api.Add(c.Y, 1))
	api.AssertIsEqual(api.Mul(inv, api.Add(c.Y, 1)), 1)
	api.AssertIsEqual(api.Add(m, s), c.Z)
	for i := 0; i < 70; i++ { // a wide level: exercises the parallel workers
		api.AssertIsEqual(api.Mul(api.Add(c.X, i), c.Y), api.Add(m, api.Mul(c.Y, i)))
	}
	return nil
}

// a hint that assigns only one of its four outputs
func sparseHint(_ *big.Int, in, out []*big.Int) error {
	k := int(new(big.Int).Mod(in[0], big.NewInt(4)).Int64())
	out[k].Mul(in[0], in[1])
	return nil
}

func init() { solver.RegisterHint(sparseHint) }

type sparseHintCircuit struct {
	X, Y frontend.Variable
	Z    frontend.Variable `gnark:",public"`
}

func (c *sparseHintCircuit) Define(api frontend.API) error {
	o, err := api.Compiler().NewHint(sparseHint, 4, c.X, c.Y)
	if err != nil {
		return err
	}
	api.AssertIsEqual(api.Add(o[0], o[1], o[2], o[3]), c.Z)
	for i := 0; i < 60; i++ { // a wide level
		api.AssertIsEqual(api.Mul(api.Add(c.X, i), c.Y), api.Add(api.Mul(c.X, c.Y), api.Mul(c.Y, i)))
	}
	return nil
}

type batchSquares struct {
	X []frontend.Variable
	Y []frontend.Variable `gnark:",public"`
}

func (c *batchSquares) Define(api frontend.API) error {
	for i := range c.X {
		api.AssertIsEqual(api.Mul(c.X[i], c.X[i]), c.Y[i])
	}
	return nil
}

type c10Desc struct {
	Scenario string `json:"scenario"`
	Detail   string `json:"detail"`
}

func withWatchdog(d time.Duration, f func()) bool {
	done := make(chan struct{})
	go func() { f(); close(done) }()
	select {
	case <-done:
		return true
	case <-time.After(d):
		return false
	}
}

func runC10(args []string) int {
	o := parseOpts(args)
	rng := NewRNG(o.Seed)
	rep := NewReport("C10")
	rep.Rule = "(1) one compiled system (hints, wide levels, commitments) is solved by 8..32 goroutines with distinct valid and invalid witnesses and nbTasks in {1,4,16}; every result must equal the sequential one; (2) Groth16 and PLONK Prove/Verify run concurrently sharing pk, vk and ONE solver-option slice with spare capacity; every proof must verify; (3) history: valid after invalid, repeated solves; (4) the real lookup-table blueprint object is driven sequentially by stub solvers through seeded interleavings of Reset/Solve of 2-3 clients and compared with the Gallina interleaving model; the same interleavings are judged against the stand-alone results; (5) concurrent solves of a system with a lookup table run in a child process under a watchdog; non-trivial = every scenario instance; distinct = scenario x parameters"
	q := ecc.BN254.ScalarField()
	N := 8
	iters := 6
	if o.Thorough() {
		N, iters = 32, 40
	}
	// ---------------- (1) concurrent solves without stateful blueprints
	for ci, r1 := range []bool{true, false, true, false} {
		t := Target{"bn254", q, r1}
		sparse := ci >= 2 // a hint that assigns only one of its outputs: the others must not depend on earlier calls
		var tmpl frontend.Circuit = &hintyCircuit{}
		if sparse {
			tmpl = &sparseHintCircuit{}
		}
		ccs, cerr := compileTarget(t, tmpl)
		if cerr != "" {
			rep.Fail("harness:compile", cerr, t.String())
			continue
		}
		type job struct {
			w    witness.Witness
			want *SolveObs
		}
		var jobs []job
		for k := 0; k < 12; k++ {
			x, y := int64(rng.Intn(60000)), int64(rng.Intn(1000))
			z := x*y + (x & 255)
			if sparse {
				z = x * y
			}
			if k%4 == 3 {
				z++ // invalid
			}
			var a frontend.Circuit = &hintyCircuit{X: x, Y: y, Z: z}
			if sparse {
				a = &sparseHintCircuit{X: x, Y: y, Z: z}
			}
			w, _ := frontend.NewWitness(a, q)
			jobs = append(jobs, job{w, SolveCapture(ccs, w, 1)})
			if sparse && k%4 != 3 && jobs[k].want.Class != "ok" {
				rep.Fail("c10:sparse-hint-outputs", "a hint output the hint function leaves unassigned is not zero: "+jobs[k].want.Msg, c10Desc{"sparse-hint", t.String()})
			}
		}
		desc := c10Desc{"concurrent-solve", t.String()}
		if sparse {
			desc.Scenario = "concurrent-solve (hint leaving outputs unassigned)"
		}
		ok := withWatchdog(120*time.Second, func() {
			var wg sync.WaitGroup
			var mu sync.Mutex
			for g := 0; g < N; g++ {
				g := g
				wg.Add(1)
				go func() {
					defer wg.Done()
					for it := 0; it < iters; it++ {
						j := jobs[(g+it*5)%len(jobs)]
						got := SolveCapture(ccs, j.w, []int{1, 4, 16}[(g+it)%3])
						mu.Lock()
						rep.Eval(fmt.Sprintf("solve|%s|%d|%d", t, g, it), true)
						if got.Class != j.want.Class || obsEqual(got, j.want) != "" {
							rep.Fail("c10:concurrent-solve-differs:"+t.String(), fmt.Sprintf("concurrent Solve returned %s (%s), alone %s", got.Class, obsEqual(got, j.want), j.want.Class), desc)
						}
						mu.Unlock()
					}
				}()
			}
			wg.Wait()
		})
		if !ok {
			rep.Fail("c10:hang:concurrent-solve:"+t.String(), "concurrent solves did not finish within 120s", desc)
		}
		rep.Sample(desc)
		// ---------------- (3) history independence
		hd := c10Desc{"history", t.String()}
		for k := 0; k < len(jobs); k++ {
			a, b := jobs[k], jobs[(k+3)%len(jobs)]
			SolveCapture(ccs, a.w, 1)
			got := SolveCapture(ccs, b.w, 1)
			again := SolveCapture(ccs, b.w, 4)
			rep.Eval(fmt.Sprintf("history|%s|%d", t, k), true)
			if got.Class != b.want.Class || obsEqual(got, b.want) != "" || obsEqual(got, again) != "" {
				rep.Fail("c10:history-dependent:"+t.String(), "a Solve after another Solve differs from a fresh Solve", hd)
			}
		}
	}
	// ---------------- (6) more tasks than cores on a very wide level, witness violating every row: Solve must return the error
	// (every worker stops at its first failing chunk; the remaining chunks must still be drained)
	for _, r1 := range []bool{true, false} {
		t := Target{"bn254", q, r1}
		const nb = 3000
		ccs, cerr := compileTarget(t, &batchSquares{X: make([]frontend.Variable, nb), Y: make([]frontend.Variable, nb)})
		if cerr != "" {
			rep.Fail("harness:compile", cerr, t.String())
			continue
		}
		for _, valid := range []bool{true, false} {
			a := &batchSquares{X: make([]frontend.Variable, nb), Y: make([]frontend.Variable, nb)}
			for i := 0; i < nb; i++ {
				a.X[i] = i + 2
				a.Y[i] = (i + 2) * (i + 2)
				if !valid {
					a.Y[i] = (i+2)*(i+2) + 1
				}
			}
			w, _ := frontend.NewWitness(a, q)
			for _, nt := range []int{1, 4 * runtime.NumCPU(), 64 * runtime.NumCPU()} {
				var obs *SolveObs
				desc := c10Desc{"wide-level", fmt.Sprintf("%s, %d independent rows, valid=%v, nbTasks=%d (cores: %d)", t, nb, valid, nt, runtime.NumCPU())}
				rep.Eval(desc.Detail, true)
				ok := withWatchdog(60*time.Second, func() { obs = SolveCapture(ccs, w, nt) })
				switch {
				case !ok:
					rep.Fail("c10:hang:wide-level:"+t.String(), "Solve does not return within 60 s: "+desc.Detail, desc)
				case valid && obs.Class != "ok":
					rep.Fail("c10:wide-level-rejects-valid:"+t.String(), obs.Class+" "+obs.Msg, desc)
				case !valid && obs.Class == "ok":
					rep.Fail("c10:wide-level-accepts-invalid:"+t.String(), "Solve succeeds on a witness violating every row", desc)
				}
			}
		}
	}
	// ---------------- (2) concurrent Prove / Verify sharing keys and one option slice (child process: a
	// panic inside a prover goroutine cannot be recovered and must not take the harness down)
	self0, _ := os.Executable()
	for _, be := range []string{"groth16", "plonk"} {
		desc := c10Desc{"concurrent-prove", be}
		rep.Eval("concurrent-prove|"+be, true)
		rep.Sample(desc)
		cmd := exec.Command(self0, "c10child", be, fmt.Sprint(N), fmt.Sprint(iters/2+1))
		var out bytes.Buffer
		cmd.Stdout, cmd.Stderr = &out, &out
		done := make(chan error, 1)
		cmd.Start()
		go func() { done <- cmd.Wait() }()
		select {
		case err := <-done:
			s := out.String()
			if k := strings.Index(s, "RESULT "); k >= 0 {
				var bad, total int
				var first string
				fmt.Sscanf(s[k:], "RESULT bad=%d total=%d", &bad, &total)
				if i := strings.Index(s, "FIRST "); i >= 0 {
					first = strings.SplitN(s[i+6:], "\n", 2)[0]
				}
				rep.Extra["concurrent_prove_"+be] = fmt.Sprintf("bad=%d total=%d", bad, total)
				if bad > 0 {
					rep.Fail("c10:concurrent-prove-wrong:"+be, fmt.Sprintf("%d of %d concurrent Prove/Verify calls sharing keys and one option slice failed: %s", bad, total, first), desc)
				}
			} else {
				rep.Fail("c10:concurrent-prove-crash:"+be, fmt.Sprintf("concurrent Prove calls sharing one solver-option slice crashed the process: %v %s", err, lastLine(s)), desc)
			}
		case <-time.After(180 * time.Second):
			cmd.Process.Kill()
			rep.Fail("c10:hang:concurrent-prove:"+be, "concurrent proves did not finish within 180s", desc)
		}
	}
	// ---------------- (4) the real lookup blueprint under model-comparable interleavings
	var coqCases []string
	nsched := 60
	if o.Thorough() {
		nsched = 600
	}
	contaminated := 0
	for si := 0; si < nsched; si++ {
		nc := 2 + rng.Intn(2)
		tables := make([][]uint64, nc)
		progs := make([][][2]int, nc)
		for c := 0; c < nc; c++ {
			tables[c] = []uint64{uint64(100*c + 10), uint64(100*c + 11), uint64(100*c + 12), uint64(100*c + 13)}
			n1 := 1 + rng.Intn(3)
			n2 := n1 + rng.Intn(5-n1)
			progs[c] = [][2]int{{n1, rng.Intn(n1)}, {n2, rng.Intn(n2)}}
			if si%3 == 1 {
				// the table grew between two lookups and the later (larger) lookup is solved first (it sits in an earlier
				// level); queries may lie beyond the entries their own instruction sees
				n1, n2 = 1+rng.Intn(4), 1+rng.Intn(4)
				progs[c] = [][2]int{{n1, rng.Intn(4)}, {n2, rng.Intn(4)}}
			}
		}
		// a random interleaving that lets every client finish
		var sched []int
		remaining := make([]int, nc)
		for c := range remaining {
			remaining[c] = 3
		}
		for {
			var live []int
			for c, r := range remaining {
				if r > 0 {
					live = append(live, c)
				}
			}
			if len(live) == 0 {
				break
			}
			c := live[rng.Intn(len(live))]
			if si%5 == 0 { // sequential schedules too
				c = live[0]
			}
			sched = append(sched, c)
			remaining[c]--
		}
		res, pn := runLookupSchedule(tables, progs, sched)
		desc := c10Desc{"lookup-blueprint-interleaving", fmt.Sprintf("tables=%v progs=%v sched=%v", tables, progs, sched)}
		rep.Eval(desc.Detail, true)
		if pn != "" {
			rep.Fail("c10:lookup-blueprint-panic", pn, desc)
			continue
		}
		// oracle: each client must get what it gets alone
		for c := 0; c < nc; c++ {
			alone, _ := runLookupSchedule([][]uint64{tables[c]}, [][][2]int{progs[c]}, []int{0, 0, 0})
			if fmt.Sprint(alone[0]) != fmt.Sprint(res[c]) {
				contaminated++
				rep.Fail("c10:lookup-cache-shared", fmt.Sprintf("client %d reads %v from the shared lookup cache, alone it reads %v", c, res[c], alone[0]), desc)
				break
			}
		}
		tz := make([]string, nc)
		pz := make([]string, nc)
		rz := make([]string, nc)
		for c := 0; c < nc; c++ {
			tb := make([]*big.Int, len(tables[c]))
			for i, v := range tables[c] {
				tb[i] = new(big.Int).SetUint64(v)
			}
			tz[c] = zlist(tb)
			qs := make([]string, len(progs[c]))
			for i, q := range progs[c] {
				qs[i] = fmt.Sprintf("(%d, %d)", q[0], q[1])
			}
			pz[c] = coqlist(qs)
			rb := make([]*big.Int, len(res[c]))
			for i, v := range res[c] {
				rb[i] = new(big.Int).SetUint64(v)
			}
			rz[c] = zlist(rb)
		}
		coqCases = append(coqCases, fmt.Sprintf("(%s, %s, %s, %s)", coqlist(tz), coqlist(pz), intlist(sched), coqlist(rz)))
	}
	rep.Extra["lookup_interleavings_contaminated"] = contaminated
	// ---------------- (5) free-running concurrent solves of a system with a lookup table (child process, watchdog)
	self, _ := os.Executable()
	cmd := exec.Command(self, "c10child", "lookup")
	var out bytes.Buffer
	cmd.Stdout = &out
	cmd.Stderr = &out
	done := make(chan error, 1)
	cmd.Start()
	go func() { done <- cmd.Wait() }()
	ld := c10Desc{"concurrent-lookup-solve", "8 goroutines x 40 solves of a logderivlookup circuit, child process"}
	rep.Eval("lookup-child", true)
	select {
	case err := <-done:
		s := out.String()
		switch {
		case strings.Contains(s, "RESULT wrong="):
			var wrong, total int
			fmt.Sscanf(s[strings.Index(s, "RESULT wrong="):], "RESULT wrong=%d total=%d", &wrong, &total)
			rep.Extra["lookup_child"] = fmt.Sprintf("wrong=%d total=%d", wrong, total)
			if wrong > 0 {
				rep.Fail("c10:lookup-cache-shared:free-running", fmt.Sprintf("%d of %d concurrent solves of a lookup-table circuit failed or returned a different solution", wrong, total), ld)
			}
		default:
			rep.Fail("c10:lookup-cache-shared:crash", fmt.Sprintf("child crashed: %v %s", err, lastLine(s)), ld)
		}
	case <-time.After(60 * time.Second):
		cmd.Process.Kill()
		rep.Fail("c10:lookup-cache-shared:hang", "concurrent solves of a lookup-table circuit did not finish within 60s (a panic under the blueprint's mutex blocks later solves)", ld)
	}
	var sb strings.Builder
	sb.WriteString("From Coq Require Import ZArith List Bool.\nFrom GnarkV Require Import Conc.Interleave Conc.LookupCache.\nImport ListNotations.\n")
	sb.WriteString(fmt.Sprintf("Definition cases : list lcase := %s.\n", coqlistNL(coqCases)))
	sb.WriteString("Definition mism_c10_lookup := Eval vm_compute in lcase_mismatches 0 cases.\nPrint mism_c10_lookup.\n")
	writeFile(o.Out, "cases_C10.v", sb.String())
	rep.CoqCases = len(coqCases)
	rep.Write(o.Out)
	return 0
}

func lastLine(s string) string {
	ls := strings.Split(strings.TrimSpace(s), "\n")
	for i := len(ls) - 1; i >= 0; i-- {
		if strings.Contains(ls[i], "panic") || strings.Contains(ls[i], "fatal") {
			return ls[i]
		}
	}
	if len(ls) > 0 {
		return ls[len(ls)-1]
	}
	return ""
}

func runC10Child(args []string) int {
	if len(args) >= 3 && (args[0] == "groth16" || args[0] == "plonk") {
		var n, it int
		fmt.Sscanf(args[1], "%d", &n)
		fmt.Sscanf(args[2], "%d", &it)
		return concurrentProveChild(args[0], n, it)
	}
	q := ecc.BN254.ScalarField()
	t := Target{"bn254", q, false}
	ccs, cerr := compileTarget(t, &lookupCircuit{mode: 0})
	if cerr != "" {
		fmt.Println("compile error", cerr)
		return 1
	}
	table := func(a, b, c int64) []int64 { return []int64{a, a + b, 7, c, b * c} }
	type job struct {
		w    witness.Witness
		want *SolveObs
	}
	var jobs []job
	for k := int64(0); k < 8; k++ {
		a, b, c := 3+k, 4+2*k, 5+3*k
		tb := table(a, b, c)
		i0, i1 := k%5, (k+2)%5
		w, _ := frontend.NewWitness(&lookupCircuit{A: a, B: b, C: c, I0: i0, I1: i1, R0: tb[i0], R1: tb[i1]}, q)
		jobs = append(jobs, job{w, SolveCapture(ccs, w, 1)})
	}
	var wg sync.WaitGroup
	var mu sync.Mutex
	wrong, total := 0, 0
	for g := 0; g < 8; g++ {
		g := g
		wg.Add(1)
		go func() {
			defer wg.Done()
			for it := 0; it < 40; it++ {
				j := jobs[(g+it)%len(jobs)]
				got := SolveCapture(ccs, j.w, 1)
				mu.Lock()
				total++
				if got.Class != j.want.Class || obsEqual(got, j.want) != "" {
					wrong++
				}
				mu.Unlock()
			}
		}()
	}
	wg.Wait()
	fmt.Printf("RESULT wrong=%d total=%d\n", wrong, total)
	return 0
}

func concurrentProveChild(be string, N, iters int) int {
	q := ecc.BN254.ScalarField()
	circ := &cm2{}
	mkw := func(k int) (witness.Witness, witness.Witness) {
		x := int64(3 + k)
		w, _ := frontend.NewWitness(&cm2{X: x, W: 5 + int64(k), Y: x * x, Z: 4}, q)
		p, _ := w.Public()
		return w, p
	}
	shared := make([]solver.Option, 0, 8) // spare capacity: an in-place append would be shared
	shared = append(shared, solver.WithNbTasks(2))
	popt := backend.WithSolverOptions(shared...)
	var prove func(w witness.Witness) (interface{}, error)
	var verify func(p interface{}, pub witness.Witness) error
	if be == "groth16" {
		ccs, err := frontend.Compile(q, r1cs.NewBuilder[constraint.U64], circ)
		if err != nil {
			fmt.Println("compile", err)
			return 1
		}
		pk, vk, _ := groth16.Setup(ccs)
		prove = func(w witness.Witness) (interface{}, error) { return groth16.Prove(ccs, pk, w, popt) }
		verify = func(p interface{}, pub witness.Witness) error { return groth16.Verify(p.(groth16.Proof), vk, pub) }
	} else {
		ccs, err := frontend.Compile(q, scs.NewBuilder[constraint.U64], circ)
		if err != nil {
			fmt.Println("compile", err)
			return 1
		}
		srs, srsL, _ := unsafekzg.NewSRS(ccs)
		pk, vk, _ := plonk.Setup(ccs, srs, srsL)
		prove = func(w witness.Witness) (interface{}, error) { return plonk.Prove(ccs, pk, w, popt) }
		verify = func(p interface{}, pub witness.Witness) error { return plonk.Verify(p.(plonk.Proof), vk, pub) }
	}
	var wg sync.WaitGroup
	var mu sync.Mutex
	bad, total := 0, 0
	first := ""
	for g := 0; g < N; g++ {
		g := g
		wg.Add(1)
		go func() {
			defer wg.Done()
			for it := 0; it < iters; it++ {
				w, pub := mkw(g*100 + it)
				var perr, verr error
				pn := catchPanic(func() {
					var p interface{}
					p, perr = prove(w)
					if perr == nil {
						verr = verify(p, pub)
					}
				})
				mu.Lock()
				total++
				msg := ""
				switch {
				case pn != "":
					msg = "panic: " + pn
				case perr != nil:
					msg = "Prove failed on a valid witness: " + perr.Error()
				case verr != nil:
					msg = "proof does not verify: " + verr.Error()
				}
				if msg != "" {
					bad++
					if first == "" {
						first = strings.ReplaceAll(msg, "\n", " ")
					}
				}
				mu.Unlock()
			}
		}()
	}
	wg.Wait()
	fmt.Printf("FIRST %s\nRESULT bad=%d total=%d\n", first, bad, total)
	return 0
}
