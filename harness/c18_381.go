package main

// C18 on a curve with a cofactor (BLS12-381): phase-1 contributions in which a G1 element is shifted by a point of small
// order (still on the curve, invisible to every pairing-based ratio check) must be refused — by the decoder's subgroup
// check or by the verification.

import (
	"bytes"
	"fmt"

	bls12381 "github.com/consensys/gnark-crypto/ecc/bls12-381"
	mpc381 "github.com/consensys/gnark/backend/groth16/bls12-381/mpcsetup"
)

func c18Torsion381(rep *Report) {
	const N = 4
	T := torsionG1_bls12381()
	if T == nil {
		rep.Fail("harness:torsion", "no small-order point found on BLS12-381", nil)
		return
	}
	p := mpc381.NewPhase1(N)
	var raws [][]byte
	for i := 0; i < 2; i++ {
		p.Contribute()
		var b bytes.Buffer
		if _, err := p.WriteTo(&b); err != nil {
			rep.Fail("harness:phase1-381", err.Error(), nil)
			return
		}
		raws = append(raws, append([]byte{}, b.Bytes()...))
	}
	read := func(b []byte) (*mpc381.Phase1, error) {
		q := new(mpc381.Phase1)
		_, err := q.ReadFrom(bytes.NewReader(b))
		return q, err
	}
	verify := func(last []byte) error {
		prev, err := read(raws[0])
		if err != nil {
			return err
		}
		q, err := read(last)
		if err != nil {
			return err
		}
		var verr error
		if pm := catchPanic(func() { verr = prev.Verify(q) }); pm != "" {
			return fmt.Errorf("panic: %s", pm)
		}
		return verr
	}
	last := raws[1]
	desc := c18Desc{Circuit: "-", Phase: 1, What: "BLS12-381, N=4, last of two contributions"}
	if err := verify(last); err != nil {
		rep.Fail("c18:honest-chain-rejected:phase1:bls12-381", err.Error(), desc)
		return
	}
	const g1, g2 = 48, 96
	paramSize := 8 + g2 + (2*N-2)*g1 + (N-1)*g2 + N*g1 + N*g1
	rest := len(last) - paramSize - 33
	if rest <= 0 || rest%3 != 0 {
		rep.Fail("harness:phase1-layout-381", fmt.Sprintf("unexpected size %d", len(last)), desc)
		return
	}
	base := rest + 8 + g2 // start of G1.Tau[1:]
	type slot struct {
		name string
		off  int
	}
	slots := []slot{{"G1.Tau[1]", base}, {fmt.Sprintf("G1.Tau[%d]", 2*N-2), base + (2*N-3)*g1},
		{"G1.BetaTau[0]", base + (2*N-2)*g1 + (N-1)*g2}, {fmt.Sprintf("G1.AlphaTau[%d]", N-1), base + (2*N-2)*g1 + (N-1)*g2 + N*g1 + (N-1)*g1}}
	for _, sl := range slots {
		var P bls12381.G1Affine
		if _, err := P.SetBytes(last[sl.off : sl.off+g1]); err != nil {
			rep.Fail("harness:phase1-layout-381", "slot "+sl.name+" does not decode: "+err.Error(), desc)
			continue
		}
		var j, jt bls12381.G1Jac
		j.FromAffine(&P)
		jt.FromAffine(T)
		j.AddAssign(&jt)
		P.FromJacobian(&j)
		enc := P.Bytes()
		b := append([]byte{}, last...)
		copy(b[sl.off:sl.off+g1], enc[:])
		err := verify(b)
		rep.Eval("phase1-381|torsion|"+sl.name, true)
		rep.Count("phase1-381-torsion:" + map[bool]string{true: "rejected", false: "ACCEPTED"}[err != nil])
		if err == nil {
			d := desc
			d.Detail = sl.name + " + point of small order"
			rep.Fail("c18:altered-accepted:phase1:torsion", "a phase-1 contribution (BLS12-381) with "+sl.name+" shifted by a point of small order outside the subgroup is accepted", d)
		}
	}
}
