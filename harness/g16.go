package main

// Groth16 white-box harness (bn254): toxic waste and prover randomness are set / observed through the
// verif hooks, every key and proof element is compared with [scalar]·G where the scalar comes from an
// exponent-level transcription of Setup / Prove (Go here, Gallina in Backend/Groth16Setup.v), and the
// real verifier is exercised on perturbed proofs.  Shared by C01 (soundness-side checks), C03
// (completeness) and C20 (blinding).

import (
	"fmt"
	"math/big"
	"strings"

	"github.com/consensys/gnark-crypto/ecc"
	curve "github.com/consensys/gnark-crypto/ecc/bn254"
	"github.com/consensys/gnark-crypto/ecc/bn254/fr"
	"github.com/consensys/gnark-crypto/ecc/bn254/fr/fft"
	"github.com/consensys/gnark/backend/groth16"
	g16 "github.com/consensys/gnark/backend/groth16/bn254"
	"github.com/consensys/gnark/backend/witness"
	"github.com/consensys/gnark/constraint"
	cs_bn254 "github.com/consensys/gnark/constraint/bn254"
	"github.com/consensys/gnark/frontend"
	"github.com/consensys/gnark/frontend/cs/r1cs"
)

type g16Run struct {
	name     string
	d        *DSystem
	ccs      constraint.ConstraintSystem
	pk       *g16.ProvingKey
	vk       *g16.VerifyingKey
	tox      [5]*big.Int // tau alpha beta gamma delta
	n        int
	omega    *big.Int
	A, B, C  []*big.Int // per wire
	vkK, pkK []*big.Int
	ckK      [][]*big.Int
	Z        []*big.Int
	cw       []int
	pc       [][]int
	nbPub    int
	keyErrs  []string
}

var bnQ = ecc.BN254.ScalarField()

func modq(x *big.Int) *big.Int    { return x.Mod(x, bnQ) }
func mulq(a, b *big.Int) *big.Int { return modq(new(big.Int).Mul(a, b)) }
func addq(a, b *big.Int) *big.Int { return modq(new(big.Int).Add(a, b)) }
func subq(a, b *big.Int) *big.Int { return modq(new(big.Int).Sub(a, b)) }
func invq(a *big.Int) *big.Int    { return new(big.Int).ModInverse(a, bnQ) }

func g1Mul(s *big.Int) curve.G1Affine {
	_, _, g1, _ := curve.Generators()
	var p curve.G1Affine
	p.ScalarMultiplication(&g1, s)
	return p
}
func g2Mul(s *big.Int) curve.G2Affine {
	_, _, _, g2 := curve.Generators()
	var p curve.G2Affine
	p.ScalarMultiplication(&g2, s)
	return p
}

func bitrev(i, n int) int {
	r, bits := 0, 0
	for (1 << uint(bits)) < n {
		bits++
	}
	for b := 0; b < bits; b++ {
		if i&(1<<uint(b)) != 0 {
			r |= 1 << uint(bits-1-b)
		}
	}
	return r
}

// g16Setup compiles, runs the real Setup with chosen toxic waste and validates every key element.
func g16Setup(name string, circuit frontend.Circuit, rng *RNG) (*g16Run, error) {
	ccs, err := frontend.Compile(bnQ, r1cs.NewBuilder[constraint.U64], circuit)
	if err != nil {
		return nil, err
	}
	run := &g16Run{name: name, ccs: ccs, d: DumpSystem(ccs)}
	for i := range run.tox {
		run.tox[i] = rng.Big(bnQ)
		if run.tox[i].Sign() == 0 {
			run.tox[i] = big.NewInt(5)
		}
	}
	g16.VerifHookToxicWaste = func(t, alpha, beta, gamma, delta *fr.Element) {
		t.SetBigInt(run.tox[0])
		alpha.SetBigInt(run.tox[1])
		beta.SetBigInt(run.tox[2])
		gamma.SetBigInt(run.tox[3])
		delta.SetBigInt(run.tox[4])
	}
	defer func() { g16.VerifHookToxicWaste = nil }()
	pk, vk, err := groth16.Setup(ccs)
	if err != nil {
		return nil, err
	}
	run.pk, run.vk = pk.(*g16.ProvingKey), vk.(*g16.VerifyingKey)
	sys := ccs.(*cs_bn254.R1CS)
	ci := sys.CommitmentInfo.(constraint.Groth16Commitments)
	run.cw = ci.CommitmentIndexes()
	run.pc = ci.GetPrivateCommitted()
	run.nbPub = sys.GetNbPublicVariables()
	// ---- exponent model of Setup
	tau, alpha, beta, gamma, delta := run.tox[0], run.tox[1], run.tox[2], run.tox[3], run.tox[4]
	var rows []*DInstr
	for i := range run.d.Instrs {
		if run.d.Instrs[i].Kind == "R1C" {
			rows = append(rows, &run.d.Instrs[i])
		}
	}
	dom := fft.NewDomain(uint64(len(rows)))
	run.n = int(dom.Cardinality)
	run.omega = dom.Generator.BigInt(new(big.Int))
	tn1 := subq(new(big.Int).Exp(tau, big.NewInt(int64(run.n)), bnQ), big.NewInt(1))
	nw := run.d.NbWires()
	run.A, run.B, run.C = make([]*big.Int, nw), make([]*big.Int, nw), make([]*big.Int, nw)
	for i := 0; i < nw; i++ {
		run.A[i], run.B[i], run.C[i] = new(big.Int), new(big.Int), new(big.Int)
	}
	for j, r := range rows {
		wj := new(big.Int).Exp(run.omega, big.NewInt(int64(j)), bnQ)
		lag := mulq(mulq(wj, tn1), invq(mulq(big.NewInt(int64(run.n)), subq(tau, wj))))
		for _, t := range r.L {
			run.A[t.W] = addq(run.A[t.W], mulq(lag, t.C))
		}
		for _, t := range r.R {
			run.B[t.W] = addq(run.B[t.W], mulq(lag, t.C))
		}
		for _, t := range r.O {
			run.C[t.W] = addq(run.C[t.W], mulq(lag, t.C))
		}
	}
	isCW := map[int]bool{}
	for _, w := range run.cw {
		isCW[w] = true
	}
	pcOf := map[int]int{}
	for j, l := range run.pc {
		for _, w := range l {
			pcOf[w] = j
		}
	}
	run.ckK = make([][]*big.Int, len(run.pc))
	gi, di := invq(gamma), invq(delta)
	for i := 0; i < nw; i++ {
		k := addq(addq(mulq(beta, run.A[i]), mulq(alpha, run.B[i])), run.C[i])
		if i < run.nbPub || isCW[i] {
			run.vkK = append(run.vkK, mulq(k, gi))
		} else if j, ok := pcOf[i]; ok {
			run.ckK[j] = append(run.ckK[j], mulq(k, gi))
		} else {
			run.pkK = append(run.pkK, mulq(k, di))
		}
	}
	zk := mulq(tn1, di)
	for k := 0; k < run.n; k++ {
		run.Z = append(run.Z, zk)
		zk = mulq(zk, tau)
	}
	// ---- every key element must be [scalar]·G
	bad := func(s string, a ...interface{}) { run.keyErrs = append(run.keyErrs, fmt.Sprintf(s, a...)) }
	eq1 := func(p *curve.G1Affine, s *big.Int) bool { q := g1Mul(s); return p.Equal(&q) }
	eq2 := func(p *curve.G2Affine, s *big.Int) bool { q := g2Mul(s); return p.Equal(&q) }
	p, v := run.pk, run.vk
	if !eq1(&p.G1.Alpha, alpha) || !eq1(&p.G1.Beta, beta) || !eq1(&p.G1.Delta, delta) || !eq2(&p.G2.Beta, beta) || !eq2(&p.G2.Delta, delta) {
		bad("pk alpha/beta/delta")
	}
	if !eq1(&v.G1.Alpha, alpha) || !eq2(&v.G2.Beta, beta) || !eq2(&v.G2.Delta, delta) || !eq2(&v.G2.Gamma, gamma) {
		bad("vk alpha/beta/gamma/delta")
	}
	ja, jb := 0, 0
	for i := 0; i < nw; i++ {
		if (run.A[i].Sign() == 0) != p.InfinityA[i] {
			bad("InfinityA[%d]", i)
		} else if run.A[i].Sign() != 0 {
			if ja >= len(p.G1.A) || !eq1(&p.G1.A[ja], run.A[i]) {
				bad("pk.G1.A for wire %d", i)
			}
			ja++
		}
		if (run.B[i].Sign() == 0) != p.InfinityB[i] {
			bad("InfinityB[%d]", i)
		} else if run.B[i].Sign() != 0 {
			if jb >= len(p.G1.B) || !eq1(&p.G1.B[jb], run.B[i]) || !eq2(&p.G2.B[jb], run.B[i]) {
				bad("pk.G1.B/G2.B for wire %d", i)
			}
			jb++
		}
	}
	if ja != len(p.G1.A) || jb != len(p.G1.B) || int(p.NbInfinityA) != nw-ja || int(p.NbInfinityB) != nw-jb {
		bad("A/B lengths or infinity counts")
	}
	if len(v.G1.K) != len(run.vkK) {
		bad("len(vk.G1.K)=%d expected %d", len(v.G1.K), len(run.vkK))
	} else {
		for i := range run.vkK {
			if !eq1(&v.G1.K[i], run.vkK[i]) {
				bad("vk.G1.K[%d]", i)
			}
		}
	}
	if len(p.G1.K) != len(run.pkK) {
		bad("len(pk.G1.K)=%d expected %d", len(p.G1.K), len(run.pkK))
	} else {
		for i := range run.pkK {
			if !eq1(&p.G1.K[i], run.pkK[i]) {
				bad("pk.G1.K[%d]", i)
			}
		}
	}
	if len(p.G1.Z) != run.n-1 {
		bad("len(pk.G1.Z)=%d expected %d", len(p.G1.Z), run.n-1)
	} else {
		for m := range p.G1.Z {
			if !eq1(&p.G1.Z[m], run.Z[bitrev(m, run.n)]) {
				bad("pk.G1.Z[%d]", m)
			}
		}
	}
	if len(p.CommitmentKeys) != len(run.ckK) {
		bad("number of commitment keys")
	} else {
		for j := range run.ckK {
			bs := p.CommitmentKeys[j].Basis
			if len(bs) != len(run.ckK[j]) {
				bad("commitment key %d basis length %d expected %d", j, len(bs), len(run.ckK[j]))
				continue
			}
			for i := range bs {
				if !eq1(&bs[i], run.ckK[j][i]) {
					bad("commitment key %d basis %d", j, i)
				}
			}
		}
	}
	return run, nil
}

type g16ProofObs struct {
	proof      *g16.Proof
	r, s       *big.Int
	W          []*big.Int
	Ar, Bs, Kr *big.Int     // expected scalars
	D          []*big.Int   // expected commitment scalars
	CV         [][]*big.Int // privately committed values per commitment, in basis order
	Ar0        *big.Int     // unblinded alpha + A·w
	errs       []string
}

func dotq(a, w []*big.Int) *big.Int {
	r := new(big.Int)
	for i := range a {
		r = addq(r, mulq(a[i], w[i]))
	}
	return r
}

// g16Prove runs the real Prove observing r, s and the solved wires, and validates the proof elements.
func (run *g16Run) prove(w witness.Witness) (*g16ProofObs, error) {
	o := &g16ProofObs{}
	g16.VerifHookProverRS = func(r, s *fr.Element) { o.r, o.s = r.BigInt(new(big.Int)), s.BigInt(new(big.Int)) }
	g16.VerifHookPostSolve = func(wv []fr.Element) {
		o.W = make([]*big.Int, len(wv))
		for i := range wv {
			o.W[i] = wv[i].BigInt(new(big.Int))
		}
	}
	defer func() { g16.VerifHookProverRS, g16.VerifHookPostSolve = nil, nil }()
	pr, err := groth16.Prove(run.ccs, run.pk, w)
	if err != nil {
		return nil, err
	}
	o.proof = pr.(*g16.Proof)
	alpha, beta, gamma, delta := run.tox[1], run.tox[2], run.tox[3], run.tox[4]
	_ = gamma
	wA, wB, wC := dotq(run.A, o.W), dotq(run.B, o.W), dotq(run.C, o.W)
	o.Ar0 = addq(alpha, wA)
	o.Ar = addq(o.Ar0, mulq(o.r, delta))
	o.Bs = addq(addq(beta, wB), mulq(o.s, delta))
	isCW := map[int]bool{}
	for _, x := range run.cw {
		isCW[x] = true
	}
	pcOf := map[int]int{}
	for j, l := range run.pc {
		for _, x := range l {
			pcOf[x] = j
		}
	}
	priv := new(big.Int)
	o.D = make([]*big.Int, len(run.pc))
	o.CV = make([][]*big.Int, len(run.pc))
	for j := range o.D {
		o.D[j] = new(big.Int)
	}
	pi := 0
	cki := make([]int, len(run.pc))
	for i := run.nbPub; i < len(o.W); i++ {
		if isCW[i] {
			continue
		}
		if j, ok := pcOf[i]; ok {
			o.D[j] = addq(o.D[j], mulq(o.W[i], run.ckK[j][cki[j]]))
			o.CV[j] = append(o.CV[j], o.W[i])
			cki[j]++
			continue
		}
		priv = addq(priv, mulq(o.W[i], run.pkK[pi]))
		pi++
	}
	hz := mulq(subq(mulq(wA, wB), wC), invq(delta))
	o.Kr = subq(addq(addq(addq(priv, hz), mulq(o.s, o.Ar)), mulq(o.r, o.Bs)), mulq(mulq(o.r, o.s), delta))
	p := o.proof
	if q := g1Mul(o.Ar); !p.Ar.Equal(&q) {
		o.errs = append(o.errs, "Ar")
	}
	if q := g2Mul(o.Bs); !p.Bs.Equal(&q) {
		o.errs = append(o.errs, "Bs")
	}
	if q := g1Mul(o.Kr); !p.Krs.Equal(&q) {
		o.errs = append(o.errs, "Krs")
	}
	if len(p.Commitments) != len(o.D) {
		o.errs = append(o.errs, "number of commitments")
	} else {
		for j := range o.D {
			if q := g1Mul(o.D[j]); !p.Commitments[j].Equal(&q) {
				o.errs = append(o.errs, fmt.Sprintf("Commitments[%d]", j))
			}
		}
	}
	return o, nil
}

func zpairs(l []DTerm) string {
	ss := make([]string, len(l))
	for i, t := range l {
		ss[i] = fmt.Sprintf("(%s, %d)", zlit(t.C), t.W)
	}
	return coqlist(ss)
}

func (run *g16Run) coqCase(o *g16ProofObs) string {
	var rows []string
	for i := range run.d.Instrs {
		in := &run.d.Instrs[i]
		if in.Kind == "R1C" {
			rows = append(rows, fmt.Sprintf("(%s, %s, %s)", zpairs(in.L), zpairs(in.R), zpairs(in.O)))
		}
	}
	pcs := make([]string, len(run.pc))
	for i, l := range run.pc {
		pcs[i] = intlist(l)
	}
	cks := make([]string, len(run.ckK))
	for i, l := range run.ckK {
		cks[i] = zlist(l)
	}
	return fmt.Sprintf("{| g_p := %s; g_n := %d; g_omega := %s;\n g_rows := %s;\n g_nbw := %d; g_nbpub := %d; g_cw := %s; g_pc := %s;\n g_tox := (%s, %s, %s, %s, %s);\n g_A := %s; g_B := %s; g_vkK := %s; g_pkK := %s; g_ckK := %s; g_Z := %s;\n g_w := %s; g_rs := (%s, %s); g_Ar := %s; g_Bs := %s; g_Krs := %s; g_D := %s |}",
		zlit(bnQ), run.n, zlit(run.omega), coqlistNL(rows), run.d.NbWires(), run.nbPub, intlist(run.cw), coqlist(pcs),
		zlit(run.tox[0]), zlit(run.tox[1]), zlit(run.tox[2]), zlit(run.tox[3]), zlit(run.tox[4]),
		zlist(run.A), zlist(run.B), zlist(run.vkK), zlist(run.pkK), coqlist(cks), zlist(run.Z),
		zlist(o.W), zlit(o.r), zlit(o.s), zlit(o.Ar), zlit(o.Bs), zlit(o.Kr), zlist(o.D))
}

// ---------------------------------------------------------------- circuits for the backend properties

type g16Spec struct {
	name string
	mk   func() frontend.Circuit
	asg  func(k int) frontend.Circuit // k-th valid assignment
}

type cubic struct {
	X frontend.Variable
	Y frontend.Variable `gnark:",public"`
}

func (c *cubic) Define(api frontend.API) error {
	x3 := api.Mul(c.X, c.X, c.X)
	api.AssertIsEqual(c.Y, api.Add(x3, c.X, 5))
	return nil
}

type pubOnly struct {
	Y, Z frontend.Variable `gnark:",public"`
	S    frontend.Variable
}

func (c *pubOnly) Define(api frontend.API) error {
	api.AssertIsEqual(api.Mul(c.Y, c.Y), c.Z)
	api.AssertIsEqual(api.Mul(c.S, 0), 0)
	return nil
}

// two commitments that do not depend on each other; the first commits to more public wires than the last
type cm2i struct {
	X, W   frontend.Variable
	P1, P2 frontend.Variable `gnark:",public"`
}

func (c *cm2i) Define(api frontend.API) error {
	api.AssertIsEqual(api.Mul(c.X, c.X), c.P1)
	a, err := api.(frontend.Committer).Commit(c.P1, c.P2, c.X)
	if err != nil {
		return err
	}
	b, err := api.(frontend.Committer).Commit(c.W)
	if err != nil {
		return err
	}
	api.AssertIsDifferent(a, b)
	api.AssertIsDifferent(api.Mul(c.W, c.P2), 0)
	return nil
}

// three commitments: secret only, public only, mixed (depending on the first)
type cm3 struct {
	X, W, V frontend.Variable
	P1, P2  frontend.Variable `gnark:",public"`
}

func (c *cm3) Define(api frontend.API) error {
	api.AssertIsEqual(api.Mul(c.X, c.X), c.P1)
	a, err := api.(frontend.Committer).Commit(c.W, c.V)
	if err != nil {
		return err
	}
	b, err := api.(frontend.Committer).Commit(c.P1, c.P2)
	if err != nil {
		return err
	}
	d, err := api.(frontend.Committer).Commit(c.X, a, c.P2)
	if err != nil {
		return err
	}
	api.AssertIsDifferent(api.Add(a, b, d), c.V)
	return nil
}

// three commitments, the last one depending on the second only (not on a prefix of the earlier commitments)
type cm3b struct {
	X, W, V frontend.Variable
	P1      frontend.Variable `gnark:",public"`
}

func (c *cm3b) Define(api frontend.API) error {
	api.AssertIsEqual(api.Mul(c.X, c.X), c.P1)
	a, err := api.(frontend.Committer).Commit(c.X)
	if err != nil {
		return err
	}
	b, err := api.(frontend.Committer).Commit(c.W, c.P1)
	if err != nil {
		return err
	}
	d, err := api.(frontend.Committer).Commit(b, c.V)
	if err != nil {
		return err
	}
	api.AssertIsDifferent(api.Add(a, d), c.V)
	return nil
}

// four commitments with crossing dependencies: the third commits to the second, the fourth to the first (a later
// commitment depends on an older commitment than an earlier one did)
type cm4x struct {
	X, Y, Z, W frontend.Variable
	P1         frontend.Variable `gnark:",public"`
}

func (c *cm4x) Define(api frontend.API) error {
	api.AssertIsEqual(api.Mul(c.X, c.X), c.P1)
	cm := api.(frontend.Committer)
	c0, err := cm.Commit(c.X)
	if err != nil {
		return err
	}
	c1, err := cm.Commit(c.Y)
	if err != nil {
		return err
	}
	c2, err := cm.Commit(c1, c.Z)
	if err != nil {
		return err
	}
	c3, err := cm.Commit(c0, c.W)
	if err != nil {
		return err
	}
	api.AssertIsDifferent(api.Add(c2, c3), c.W)
	return nil
}

// committed expressions whose lowest wire is the constant or a public input although they contain a secret
type cmShift struct {
	X, W frontend.Variable
	P1   frontend.Variable `gnark:",public"`
}

func (c *cmShift) Define(api frontend.API) error {
	api.AssertIsEqual(api.Mul(c.X, c.X), c.P1)
	a, err := api.(frontend.Committer).Commit(api.Add(c.X, c.P1), api.Add(c.W, 1), api.Add(api.Mul(c.X, 2), 5))
	if err != nil {
		return err
	}
	api.AssertIsDifferent(a, c.W)
	return nil
}

// k public inputs, m committed secrets, t constraints after the commitment
type cmShape struct {
	P       []frontend.Variable `gnark:",public"`
	S       []frontend.Variable
	k, m, t int
}

func newCmShape(k, m, t int) *cmShape {
	return &cmShape{P: make([]frontend.Variable, k), S: make([]frontend.Variable, m), k: k, m: m, t: t}
}

func (c *cmShape) Define(api frontend.API) error {
	for i := range c.P {
		api.AssertIsEqual(api.Mul(c.S[i%c.m], c.S[i%c.m]), c.P[i])
	}
	cm, err := api.(frontend.Committer).Commit(c.S...)
	if err != nil {
		return err
	}
	acc := cm
	for i := 0; i < c.t; i++ {
		acc = api.Mul(acc, c.S[i%c.m])
	}
	return nil
}

func cmShapeAsg(k, m, t, j int) *cmShape {
	a := newCmShape(k, m, t)
	for i := range a.S {
		a.S[i] = 3 + i + j
	}
	for i := range a.P {
		v := 3 + i%m + j
		a.P[i] = v * v
	}
	return a
}

func g16Specs() []g16Spec {
	return []g16Spec{
		{"cubic", func() frontend.Circuit { return &cubic{} }, func(k int) frontend.Circuit {
			x := int64(3 + k)
			return &cubic{X: x, Y: x*x*x + x + 5}
		}},
		{"square", func() frontend.Circuit { return &cm0{} }, func(k int) frontend.Circuit { x := int64(3 + k); return &cm0{X: x, Y: x * x} }},
		{"commit1", func() frontend.Circuit { return &cm1{} }, func(k int) frontend.Circuit { x := int64(3 + k); return &cm1{X: x, W: 5 + int64(k), Y: x * x} }},
		{"commit2", func() frontend.Circuit { return &cm2{} }, func(k int) frontend.Circuit {
			x := int64(3 + k)
			return &cm2{X: x, W: 5 + int64(k), Y: x * x, Z: 4 + int64(k)}
		}},
		{"commit2-independent", func() frontend.Circuit { return &cm2i{} }, func(k int) frontend.Circuit {
			x := int64(3 + k)
			return &cm2i{X: x, W: 5 + int64(k), P1: x * x, P2: 9 + int64(k)}
		}},
		{"commit3", func() frontend.Circuit { return &cm3{} }, func(k int) frontend.Circuit {
			x := int64(2 + k)
			return &cm3{X: x, W: 5 + int64(k), V: 11 + int64(k), P1: x * x, P2: 6 + int64(k)}
		}},
		{"commit3-second-only", func() frontend.Circuit { return &cm3b{} }, func(k int) frontend.Circuit {
			x := int64(2 + k)
			return &cm3b{X: x, W: 5 + int64(k), V: 11 + int64(k), P1: x * x}
		}},
		{"commit4-crossing", func() frontend.Circuit { return &cm4x{} }, func(k int) frontend.Circuit {
			x := int64(2 + k)
			return &cm4x{X: x, Y: 5 + int64(k), Z: 11 + int64(k), W: 13 + int64(k), P1: x * x}
		}},
		{"commit-shifted", func() frontend.Circuit { return &cmShift{} }, func(k int) frontend.Circuit {
			x := int64(2 + k)
			return &cmShift{X: x, W: 5 + int64(k), P1: x * x}
		}},
		{"commit-shape-3-4-0", func() frontend.Circuit { return newCmShape(3, 4, 0) }, func(k int) frontend.Circuit { return cmShapeAsg(3, 4, 0, k) }},
		{"commit-shape-3-4-2", func() frontend.Circuit { return newCmShape(3, 4, 2) }, func(k int) frontend.Circuit { return cmShapeAsg(3, 4, 2, k) }},
		{"commit-shape-1-1-0", func() frontend.Circuit { return newCmShape(1, 1, 0) }, func(k int) frontend.Circuit { return cmShapeAsg(1, 1, 0, k) }},
		{"public-only", func() frontend.Circuit { return &pubOnly{} }, func(k int) frontend.Circuit { y := int64(2 + k); return &pubOnly{Y: y, Z: y * y, S: 7} }},
		{"hinty", func() frontend.Circuit { return &hintyCircuit{} }, func(k int) frontend.Circuit {
			x, y := int64(300+k), int64(7+k)
			return &hintyCircuit{X: x, Y: y, Z: x*y + (x & 255)}
		}},
	}
}

func shortErr(err error) string {
	if err == nil {
		return ""
	}
	s := strings.SplitN(err.Error(), "\n", 2)[0]
	if len(s) > 140 {
		s = s[:140]
	}
	return s
}
