package main

// C18: MPC setup accepts only valid contribution chains and yields working keys.

import (
	"bytes"
	"crypto/sha256"
	"fmt"
	"io"
	"math/big"
	"strings"

	"github.com/consensys/gnark-crypto/ecc"
	curve "github.com/consensys/gnark-crypto/ecc/bn254"
	"github.com/consensys/gnark-crypto/ecc/bn254/fr"
	gcmpc "github.com/consensys/gnark-crypto/ecc/bn254/mpcsetup"
	"github.com/consensys/gnark/backend/groth16"
	mpc "github.com/consensys/gnark/backend/groth16/bn254/mpcsetup"
	"github.com/consensys/gnark/constraint"
	cs_bn254 "github.com/consensys/gnark/constraint/bn254"
	"github.com/consensys/gnark/frontend"
	"github.com/consensys/gnark/frontend/cs/r1cs"
)

func init() { commands["c18"] = runC18 }

type c18Desc struct {
	Circuit string `json:"circuit"`
	Phase   int    `json:"phase"`
	What    string `json:"what"`
	Detail  string `json:"detail,omitempty"`
}

func ser(v io.WriterTo) []byte {
	var b bytes.Buffer
	if _, err := v.WriteTo(&b); err != nil {
		panic(err)
	}
	return b.Bytes()
}

func readPhase1(b []byte) (*mpc.Phase1, error) {
	p := new(mpc.Phase1)
	var err error
	pm := catchPanic(func() { _, err = p.ReadFrom(bytes.NewReader(b)) })
	if pm != "" {
		return nil, fmt.Errorf("panic: %s", pm)
	}
	return p, err
}

// forgePhase2OtherChallenge builds, from the bytes of a contribution, a next contribution with fresh delta / sigma values,
// correctly rescaled parameters and update proofs computed over a challenge that is not the hash of the previous one
func forgePhase2OtherChallenge(prevB []byte, empty bool) []byte {
	q, err := readPhase2(prevB)
	if err != nil {
		return nil
	}
	w32 := sha256.Sum256([]byte("some other transcript"))
	wrong := w32[:]
	if empty {
		wrong = nil // an undeclared challenge: the proofs are bound to nothing
	}
	var delta fr.Element
	q.Delta = gcmpc.UpdateValues(&delta, wrong, 0)
	sig := make([]fr.Element, len(q.Parameters.G1.SigmaCKK))
	for i := range sig {
		q.Sigmas[i] = gcmpc.UpdateValues(&sig[i], wrong, byte(1+i))
	}
	var I big.Int
	for i := range sig {
		sig[i].BigInt(&I)
		q.Parameters.G2.Sigma[i].ScalarMultiplication(&q.Parameters.G2.Sigma[i], &I)
		for j := range q.Parameters.G1.SigmaCKK[i] {
			q.Parameters.G1.SigmaCKK[i][j].ScalarMultiplication(&q.Parameters.G1.SigmaCKK[i][j], &I)
		}
	}
	delta.BigInt(&I)
	q.Parameters.G2.Delta.ScalarMultiplication(&q.Parameters.G2.Delta, &I)
	q.Parameters.G1.Delta.ScalarMultiplication(&q.Parameters.G1.Delta, &I)
	var dinv fr.Element
	dinv.Inverse(&delta)
	dinv.BigInt(&I)
	for i := range q.Parameters.G1.Z {
		q.Parameters.G1.Z[i].ScalarMultiplication(&q.Parameters.G1.Z[i], &I)
	}
	for i := range q.Parameters.G1.PKK {
		q.Parameters.G1.PKK[i].ScalarMultiplication(&q.Parameters.G1.PKK[i], &I)
	}
	q.Challenge = wrong
	return ser(q)
}

func readPhase2(b []byte) (*mpc.Phase2, error) {
	p := new(mpc.Phase2)
	var err error
	pm := catchPanic(func() { _, err = p.ReadFrom(bytes.NewReader(b)) })
	if pm != "" {
		return nil, fmt.Errorf("panic: %s", pm)
	}
	return p, err
}

// a chain of n phase-1 contributions (each one deserialised from the bytes a participant would send)
func phase1Chain(N uint64, n int) ([]*mpc.Phase1, [][]byte) {
	var p mpc.Phase1
	p.Initialize(N)
	var out []*mpc.Phase1
	var raw [][]byte
	for i := 0; i < n; i++ {
		p.Contribute()
		b := ser(&p)
		raw = append(raw, b)
		q, err := readPhase1(b)
		if err != nil {
			panic(err)
		}
		out = append(out, q)
	}
	return out, raw
}

func pairEq(a1 curve.G1Affine, a2 curve.G2Affine, b1 curve.G1Affine, b2 curve.G2Affine) bool {
	var nb1 curve.G1Affine
	nb1.Neg(&b1)
	ok, err := curve.PairingCheck([]curve.G1Affine{a1, nb1}, []curve.G2Affine{a2, b2})
	return err == nil && ok
}

func runC18(args []string) int {
	o := parseOpts(args)
	rng := NewRNG(o.Seed)
	rep := NewReport("C18")
	rep.Rule = "bn254 (black box: contribution secrets are sampled inside the library): circuits with and without a commitment and domain sizes 4..32; honest chains of 1..3 contributions per phase must verify, the sealed phase-1 string must satisfy, element by element and with exact pairings, the well-formedness relations of the Gallina model (first elements, common ratio of the four vectors, beta in G2), and the extracted keys must prove and verify (and reject another public input); every group element of a serialized phase-1 contribution replaced by another valid point, challenge bytes altered, every group element of phase-2 parameters replaced, contributions reordered, duplicated, spliced from another transcript or not extending the previous one must be rejected; non-trivial = every (circuit, chain, alteration); distinct as counted"
	type circ struct {
		name string
		mk   func() frontend.Circuit
		asg  func() frontend.Circuit
		bad  func() frontend.Circuit
	}
	circs := []circ{
		{"cubic", func() frontend.Circuit { return &cubic{} }, func() frontend.Circuit { return &cubic{X: 3, Y: 35} }, func() frontend.Circuit { return &cubic{X: 3, Y: 36} }},
		{"commit1", func() frontend.Circuit { return &cm1{} }, func() frontend.Circuit { return &cm1{X: 3, W: 5, Y: 9} }, func() frontend.Circuit { return &cm1{X: 3, W: 5, Y: 10} }},
	}
	// two and three commitments: every sigma_i has its own update proof
	circs = append(circs, circ{"commit2", func() frontend.Circuit { return &cm2{} }, func() frontend.Circuit { return &cm2{X: 3, W: 5, Y: 9, Z: 4} }, func() frontend.Circuit { return &cm2{X: 3, W: 5, Y: 8, Z: 4} }},
		circ{"commit3", func() frontend.Circuit { return &cm3{} }, func() frontend.Circuit { return &cm3{X: 2, W: 5, V: 11, P1: 4, P2: 6} }, func() frontend.Circuit { return &cm3{X: 2, W: 5, V: 11, P1: 5, P2: 6} }})
	if o.Thorough() {
		circs = append(circs,
			circ{"size-14", func() frontend.Circuit { return &sizedCircuit{n: 14} }, func() frontend.Circuit { return &sizedCircuit{X: 3, Y: new(big.Int).Exp(big.NewInt(3), big.NewInt(15), bnQ), n: 14} }, func() frontend.Circuit { return &sizedCircuit{X: 3, Y: 1, n: 14} }})
	}
	_, _, g1, g2 := curve.Generators()
	var other1 curve.G1Affine
	var other2 curve.G2Affine
	other1.ScalarMultiplication(&g1, big.NewInt(7))
	other2.ScalarMultiplication(&g2, big.NewInt(7))
	o1b, o2b := other1.Bytes(), other2.Bytes()
	for ci, c := range circs {
		ccs, err := frontend.Compile(bnQ, r1cs.NewBuilder[constraint.U64], c.mk())
		if err != nil {
			rep.Fail("harness:compile", err.Error(), nil)
			continue
		}
		sys := ccs.(*cs_bn254.R1CS)
		N := ecc.NextPowerOfTwo(uint64(sys.GetNbConstraints()))
		if N < 4 {
			N = 4
		}
		n1 := 1 + (ci+int(o.Seed))%3
		n2 := 1 + (ci+1+int(o.Seed))%3
		chain, raw := phase1Chain(N, n1)
		desc := c18Desc{Circuit: c.name, Phase: 1, What: fmt.Sprintf("honest chain of %d contributions, N=%d", n1, N)}
		commons, err := mpc.VerifyPhase1(N, []byte("beacon-1"), chain...)
		rep.Eval(fmt.Sprintf("%s|phase1-honest|%d", c.name, n1), true)
		rep.Sample(desc)
		if err != nil {
			rep.Fail("c18:honest-chain-rejected:phase1", "an honest phase-1 chain is rejected: "+err.Error(), desc)
			continue
		}
		// element-wise well-formedness of the sealed string (Std/Mpc.v wellformed_sound premises), exact pairings
		wf := len(commons.G1.Tau) == int(2*N-1) && len(commons.G2.Tau) == int(N) && len(commons.G1.AlphaTau) == int(N) && len(commons.G1.BetaTau) == int(N)
		wf = wf && commons.G1.Tau[0].Equal(&g1) && commons.G2.Tau[0].Equal(&g2)
		if wf {
			for i := 0; i+1 < len(commons.G1.Tau) && wf; i++ {
				wf = pairEq(commons.G1.Tau[i+1], g2, commons.G1.Tau[i], commons.G2.Tau[1])
			}
			for i := 0; i+1 < int(N) && wf; i++ {
				wf = pairEq(g1, commons.G2.Tau[i+1], commons.G1.Tau[1], commons.G2.Tau[i]) &&
					pairEq(commons.G1.AlphaTau[i+1], g2, commons.G1.AlphaTau[i], commons.G2.Tau[1]) &&
					pairEq(commons.G1.BetaTau[i+1], g2, commons.G1.BetaTau[i], commons.G2.Tau[1])
			}
			wf = wf && pairEq(commons.G1.BetaTau[0], g2, g1, commons.G2.Beta)
		}
		rep.Eval(c.name+"|phase1-wellformed", true)
		if !wf {
			rep.Fail("c18:sealed-string-malformed", "the sealed phase-1 string does not satisfy the element-wise power relations", desc)
		}
		// ---- phase 2
		var p2 mpc.Phase2
		p2.Initialize(sys, &commons)
		var chain2 []*mpc.Phase2
		var raw2 [][]byte
		for i := 0; i < n2; i++ {
			p2.Contribute()
			raw2 = append(raw2, ser(&p2))
			q, err := readPhase2(raw2[i])
			if err != nil {
				rep.Fail("c18:phase2-serialization", err.Error(), desc)
				break
			}
			chain2 = append(chain2, q)
		}
		d2 := c18Desc{Circuit: c.name, Phase: 2, What: fmt.Sprintf("honest chain of %d contributions", n2)}
		pk, vk, err := mpc.VerifyPhase2(sys, &commons, []byte("beacon-2"), chain2...)
		rep.Eval(fmt.Sprintf("%s|phase2-honest|%d", c.name, n2), true)
		if err != nil {
			rep.Fail("c18:honest-chain-rejected:phase2", "an honest phase-2 chain is rejected: "+err.Error(), d2)
			continue
		}
		// phase-2 model tie (Std/Mpc2.v): along the chain delta is the same scalar in G1 and G2, delta*Z, delta*PKK and
		// SigmaCKK/sigma are invariant — checked element-wise by pairings on the contributions as the participants sent them
		{
			var st []*mpc.Phase2
			p0 := new(mpc.Phase2)
			p0.Initialize(sys, &commons)
			st = append(st, p0)
			for _, b := range raw2 {
				q, err := readPhase2(b)
				if err != nil {
					break
				}
				st = append(st, q)
			}
			_, _, g1g, g2g := curve.Generators()
			same := func(a1 curve.G1Affine, a2 curve.G2Affine, b1 curve.G1Affine, b2 curve.G2Affine) bool { // e(a1,a2) == e(b1,b2)
				var nb1 curve.G1Affine
				nb1.Neg(&b1)
				ok, err := curve.PairingCheck([]curve.G1Affine{a1, nb1}, []curve.G2Affine{a2, b2})
				return err == nil && ok
			}
			bad := ""
			for k := 1; k < len(st) && bad == ""; k++ {
				p, q := st[k-1], st[k]
				if !same(q.Parameters.G1.Delta, g2g, g1g, q.Parameters.G2.Delta) {
					bad = fmt.Sprintf("contribution %d: delta differs between G1 and G2", k)
				}
				for i := range q.Parameters.G1.Z {
					if !same(q.Parameters.G1.Z[i], q.Parameters.G2.Delta, p.Parameters.G1.Z[i], p.Parameters.G2.Delta) {
						bad = fmt.Sprintf("contribution %d: delta * Z[%d] changed", k, i)
					}
				}
				for i := range q.Parameters.G1.PKK {
					if !same(q.Parameters.G1.PKK[i], q.Parameters.G2.Delta, p.Parameters.G1.PKK[i], p.Parameters.G2.Delta) {
						bad = fmt.Sprintf("contribution %d: delta * PKK[%d] changed", k, i)
					}
				}
				for ci := range q.Parameters.G1.SigmaCKK {
					for j := range q.Parameters.G1.SigmaCKK[ci] {
						if !same(q.Parameters.G1.SigmaCKK[ci][j], p.Parameters.G2.Sigma[ci], p.Parameters.G1.SigmaCKK[ci][j], q.Parameters.G2.Sigma[ci]) {
							bad = fmt.Sprintf("contribution %d: SigmaCKK[%d][%d] / sigma[%d] changed", k, ci, j, ci)
						}
					}
				}
				rep.Eval(fmt.Sprintf("%s|phase2-invariants|%d", c.name, k), true)
				rep.Count("phase2-model-invariants")
			}
			if bad != "" {
				rep.Fail("c18:phase2-model-invariants", "an honest phase-2 contribution does not satisfy the relations of the model (Std/Mpc2.v): "+bad, d2)
			}
		}
		// keys work
		{
			full, _ := frontend.NewWitness(c.asg(), bnQ)
			pub, _ := full.Public()
			proof, err := groth16.Prove(ccs, pk, full)
			rep.Eval(c.name+"|keys-prove-verify", true)
			if err != nil {
				rep.Fail("c18:keys-do-not-prove", "Prove with the ceremony keys fails on a valid witness: "+shortErr(err), d2)
			} else {
				if err := groth16.Verify(proof, vk, pub); err != nil {
					rep.Fail("c18:keys-do-not-verify", "a proof made with the ceremony keys is rejected: "+shortErr(err), d2)
				}
				badFull, _ := frontend.NewWitness(c.bad(), bnQ)
				badPub, _ := badFull.Public()
				if groth16.Verify(proof, vk, badPub) == nil {
					rep.Fail("c18:keys-accept-wrong-input", "the ceremony verifying key accepts the proof for another public input", d2)
				}
				if _, err := groth16.Prove(ccs, pk, badFull); err == nil {
					rep.Fail("c18:keys-prove-invalid", "Prove succeeds on a non-satisfying assignment", d2)
				}
			}
		}
		// ---- phase 1 alterations of the LAST contribution's bytes
		last := raw[len(raw)-1]
		prev := mpc.NewPhase1(N)
		if len(raw) > 1 {
			prev, _ = readPhase1(raw[len(raw)-2])
		}
		prevBytes := ser(prev)
		verifyFromBytes := func(b []byte) error {
			p, _ := readPhase1(prevBytes)
			q, err := readPhase1(b)
			if err != nil {
				return err
			}
			var verr error
			pm := catchPanic(func() { verr = p.Verify(q) })
			if pm != "" {
				return fmt.Errorf("panic: %s", pm)
			}
			return verr
		}
		if err := verifyFromBytes(last); err != nil {
			rep.Fail("harness:phase1-reverify", err.Error(), desc)
		}
		// layout: 3 update proofs | N (8) | G2.Beta (64) | G1.Tau[1:] | G2.Tau[1:] | BetaTau | AlphaTau | challenge (1+32)
		paramSize := 8 + 64 + int(2*N-2)*32 + int(N-1)*64 + int(N)*32 + int(N)*32
		chalSize := len(last) - paramSize
		proofSize := 0
		for ps := 32; ps <= 400; ps++ {
			if len(last)-paramSize-3*ps == 33 { // one length byte + the 32-byte challenge
				proofSize = ps
				chalSize = len(last) - paramSize - 3*ps
				break
			}
		}
		type slot struct {
			name string
			off  int
			g2   bool
		}
		var slots []slot
		if proofSize == 32+64 {
			for k, nm := range []string{"proof.Tau", "proof.Alpha", "proof.Beta"} {
				slots = append(slots, slot{nm + ".commitment", k * proofSize, false}, slot{nm + ".pok", k*proofSize + 32, true})
			}
		} else {
			rep.Count(fmt.Sprintf("update-proof-size:%d", proofSize))
		}
		off := 3*proofSize + 8
		slots = append(slots, slot{"G2.Beta", off, true})
		off += 64
		for i := 0; i < int(2*N-2); i++ {
			slots = append(slots, slot{fmt.Sprintf("G1.Tau[%d]", i+1), off, false})
			off += 32
		}
		for i := 0; i < int(N-1); i++ {
			slots = append(slots, slot{fmt.Sprintf("G2.Tau[%d]", i+1), off, true})
			off += 64
		}
		for i := 0; i < int(N); i++ {
			slots = append(slots, slot{fmt.Sprintf("G1.BetaTau[%d]", i), off, false})
			off += 32
		}
		for i := 0; i < int(N); i++ {
			slots = append(slots, slot{fmt.Sprintf("G1.AlphaTau[%d]", i), off, false})
			off += 32
		}
		if off+chalSize != len(last) {
			rep.Fail("harness:phase1-layout", fmt.Sprintf("layout mismatch: %d + %d != %d", off, chalSize, len(last)), desc)
		} else {
			maxSlots := len(slots)
			if !o.Thorough() && maxSlots > 40 {
				// quick tier: every slot of small strings, a spread otherwise
				var sub []slot
				for i := 0; i < len(slots); i += (len(slots) + 39) / 40 {
					sub = append(sub, slots[i])
				}
				slots = sub
			}
			for _, sl := range slots {
				b := append([]byte{}, last...)
				if sl.g2 {
					copy(b[sl.off:sl.off+64], o2b[:])
				} else {
					copy(b[sl.off:sl.off+32], o1b[:])
				}
				if bytes.Equal(b, last) {
					continue
				}
				err := verifyFromBytes(b)
				rep.Eval(fmt.Sprintf("%s|phase1-alter|%s", c.name, sl.name), true)
				rep.Count("phase1-alter:" + map[bool]string{true: "rejected", false: "ACCEPTED"}[err != nil])
				if err == nil {
					rep.Fail("c18:altered-accepted:phase1:"+strings.SplitN(sl.name, "[", 2)[0], "a phase-1 contribution with "+sl.name+" replaced by another valid point is accepted", c18Desc{Circuit: c.name, Phase: 1, What: "element replaced", Detail: sl.name})
				} else if strings.HasPrefix(err.Error(), "panic") {
					rep.Fail("c18:panic:phase1-verify", err.Error(), c18Desc{Circuit: c.name, Phase: 1, What: "element replaced", Detail: sl.name})
				}
			}
			// swap two neighbouring powers
			{
				b := append([]byte{}, last...)
				a := 3*proofSize + 8 + 64
				copy(b[a:a+32], last[a+32:a+64])
				copy(b[a+32:a+64], last[a:a+32])
				rep.Eval(c.name+"|phase1-swap", true)
				if verifyFromBytes(b) == nil {
					rep.Fail("c18:altered-accepted:phase1:swap", "a phase-1 contribution with two powers swapped is accepted", desc)
				}
			}
			// challenge byte
			{
				b := append([]byte{}, last...)
				b[len(b)-1] ^= 1
				rep.Eval(c.name+"|phase1-challenge", true)
				if verifyFromBytes(b) == nil {
					rep.Fail("c18:altered-accepted:phase1:challenge", "a phase-1 contribution with an altered challenge is accepted", desc)
				}
			}
		}
		// ---- chain level, phase 1
		chainCheck := func(name string, cs ...[]byte) {
			var ps []*mpc.Phase1
			for _, b := range cs {
				p, err := readPhase1(b)
				if err != nil {
					return
				}
				ps = append(ps, p)
			}
			var err error
			pm := catchPanic(func() { _, err = mpc.VerifyPhase1(N, []byte("beacon-1"), ps...) })
			rep.Eval(c.name+"|phase1-chain|"+name, true)
			if pm != "" {
				rep.Fail("c18:panic:phase1-chain", pm, c18Desc{Circuit: c.name, Phase: 1, What: name})
			} else if err == nil {
				rep.Fail("c18:chain-accepted:phase1:"+name, "an invalid phase-1 chain is accepted: "+name, c18Desc{Circuit: c.name, Phase: 1, What: name})
			}
		}
		_, rawA := phase1Chain(N, 3)
		_, rawB := phase1Chain(N, 3)
		chainCheck("reordered", rawA[1], rawA[0], rawA[2])
		chainCheck("duplicated", rawA[0], rawA[0])
		chainCheck("spliced from another transcript", rawA[0], rawB[1])
		chainCheck("second contribution does not extend the first", rawA[0], rawB[0])
		chainCheck("first contribution missing", rawA[1], rawA[2])
		// ---- phase 2 alterations (in memory: parameters are exported) and chains
		if len(chain2) > 0 {
			// the objects handed to VerifyPhase2 are sealed in place: work from the bytes the participants sent
			lastB := raw2[len(raw2)-1]
			prev2 := new(mpc.Phase2)
			prev2.Initialize(sys, &commons)
			prev2B := ser(prev2)
			if len(raw2) > 1 {
				prev2B = raw2[len(raw2)-2]
			}
			verify2 := func(mut func(q *mpc.Phase2)) error {
				p, _ := readPhase2(prev2B)
				q, err := readPhase2(lastB)
				if err != nil {
					return err
				}
				mut(q)
				var verr error
				pm := catchPanic(func() { verr = p.Verify(q) })
				if pm != "" {
					return fmt.Errorf("panic: %s", pm)
				}
				return verr
			}
			if err := verify2(func(*mpc.Phase2) {}); err != nil {
				rep.Fail("harness:phase2-reverify", err.Error(), d2)
			}
			type mut2 struct {
				name string
				f    func(q *mpc.Phase2)
			}
			var muts []mut2
			muts = append(muts, mut2{"G1.Delta", func(q *mpc.Phase2) { q.Parameters.G1.Delta = other1 }}, mut2{"G2.Delta", func(q *mpc.Phase2) { q.Parameters.G2.Delta = other2 }})
			probe, _ := readPhase2(lastB)
			for i := range probe.Parameters.G1.Z {
				i := i
				muts = append(muts, mut2{fmt.Sprintf("G1.Z[%d]", i), func(q *mpc.Phase2) { q.Parameters.G1.Z[i] = other1 }})
			}
			for i := range probe.Parameters.G1.PKK {
				i := i
				muts = append(muts, mut2{fmt.Sprintf("G1.PKK[%d]", i), func(q *mpc.Phase2) { q.Parameters.G1.PKK[i] = other1 }})
			}
			for i := range probe.Parameters.G1.SigmaCKK {
				for j := range probe.Parameters.G1.SigmaCKK[i] {
					i, j := i, j
					muts = append(muts, mut2{fmt.Sprintf("G1.SigmaCKK[%d][%d]", i, j), func(q *mpc.Phase2) { q.Parameters.G1.SigmaCKK[i][j] = other1 }})
				}
				i := i
				muts = append(muts, mut2{fmt.Sprintf("G2.Sigma[%d]", i), func(q *mpc.Phase2) { q.Parameters.G2.Sigma[i] = other2 }})
			}
			muts = append(muts, mut2{"Challenge", func(q *mpc.Phase2) { q.Challenge = append([]byte{}, q.Challenge...); q.Challenge[0] ^= 1 }})
			muts = append(muts, mut2{"Z truncated", func(q *mpc.Phase2) {
				if len(q.Parameters.G1.Z) > 0 {
					q.Parameters.G1.Z = q.Parameters.G1.Z[:len(q.Parameters.G1.Z)-1]
				}
			}})
			muts = append(muts, mut2{"PKK scaled consistently with Z but Delta kept", func(q *mpc.Phase2) {
				for i := range q.Parameters.G1.Z {
					q.Parameters.G1.Z[i].ScalarMultiplication(&q.Parameters.G1.Z[i], big.NewInt(3))
				}
				for i := range q.Parameters.G1.PKK {
					q.Parameters.G1.PKK[i].ScalarMultiplication(&q.Parameters.G1.PKK[i], big.NewInt(3))
				}
			}})
			for _, m := range muts {
				err := verify2(m.f)
				rep.Eval(fmt.Sprintf("%s|phase2-alter|%s", c.name, m.name), true)
				rep.Count("phase2-alter:" + map[bool]string{true: "rejected", false: "ACCEPTED"}[err != nil])
				if err == nil {
					rep.Fail("c18:altered-accepted:phase2:"+strings.SplitN(m.name, "[", 2)[0], "a phase-2 contribution with "+m.name+" altered is accepted", c18Desc{Circuit: c.name, Phase: 2, What: "altered", Detail: m.name})
				} else if strings.HasPrefix(err.Error(), "panic") {
					rep.Fail("c18:panic:phase2-verify", err.Error(), c18Desc{Circuit: c.name, Phase: 2, What: "altered", Detail: m.name})
				}
			}
			// chains
			mk2 := func(n int) [][]byte {
				var p mpc.Phase2
				p.Initialize(sys, &commons)
				var out [][]byte
				for i := 0; i < n; i++ {
					p.Contribute()
					out = append(out, ser(&p))
				}
				return out
			}
			a2, b2 := mk2(3), mk2(2)
			chain2Check := func(name string, bs ...[]byte) {
				var ps []*mpc.Phase2
				for _, b := range bs {
					p, err := readPhase2(b)
					if err != nil {
						return
					}
					ps = append(ps, p)
				}
				var err error
				pm := catchPanic(func() { _, _, err = mpc.VerifyPhase2(sys, &commons, []byte("beacon-2"), ps...) })
				rep.Eval(c.name+"|phase2-chain|"+name, true)
				if pm != "" {
					rep.Fail("c18:panic:phase2-chain", pm, c18Desc{Circuit: c.name, Phase: 2, What: name})
				} else if err == nil {
					rep.Fail("c18:chain-accepted:phase2:"+name, "an invalid phase-2 chain is accepted: "+name, c18Desc{Circuit: c.name, Phase: 2, What: name})
				}
			}
			chain2Check("reordered", a2[1], a2[0], a2[2])
			chain2Check("duplicated", a2[0], a2[0])
			chain2Check("spliced from another transcript", a2[0], b2[1])
			chain2Check("first contribution missing", a2[1], a2[2])
			// a contribution that rescales the previous parameters consistently but whose proofs of knowledge are bound to the
			// hash of ANOTHER transcript (declared as its challenge): it does not extend the previous contribution
			if forged := forgePhase2OtherChallenge(a2[0], false); forged != nil {
				chain2Check("proofs bound to another transcript's challenge", a2[0], forged)
			}
			if pm := catchPanic(func() {
				if forged := forgePhase2OtherChallenge(a2[0], true); forged != nil {
					chain2Check("proofs bound to an empty challenge", a2[0], forged)
				}
			}); pm != "" {
				rep.Count("phase2-empty-challenge-not-serialisable")
			}
		}
		_ = rng
	}
	c18Torsion381(rep)
	rep.Write(o.Out)
	return 0
}
