package main

// C12: elements on fewer limbs than the modulus (FromBits of a few bits, small constants): IsZero and
// AssertIsDifferent must still decide "== 0 mod p" (F34: such an element equal to the low limbs of p was
// reported as zero).

import (
	"fmt"
	"math/big"
	"strings"

	"github.com/consensys/gnark/constraint/solver"
	"github.com/consensys/gnark/std/rangecheck"

	"github.com/consensys/gnark/constraint"
	"github.com/consensys/gnark/frontend"
	"github.com/consensys/gnark/frontend/cs/r1cs"
	"github.com/consensys/gnark/std/math/emulated"
	"github.com/consensys/gnark/test"
)

type shortElemCircuit[T emulated.FieldParams] struct {
	X     frontend.Variable
	R     frontend.Variable `gnark:",public"`
	nbits int
}

func (c *shortElemCircuit[T]) Define(api frontend.API) error {
	f, err := emulated.NewField[T](api)
	if err != nil {
		return err
	}
	e := f.FromBits(api.ToBinary(c.X, c.nbits)...)
	api.AssertIsEqual(f.IsZero(e), c.R)
	return nil
}

func shortElems[T emulated.FieldParams](rep *Report, name string, rng *RNG) {
	var t T
	q, w, nl := t.Modulus(), int(t.BitsPerLimb()), int(t.NbLimbs())
	for k := 1; k < nl; k++ {
		nbits := k * w
		if nbits > 250 {
			break
		}
		mask := new(big.Int).Sub(new(big.Int).Lsh(big.NewInt(1), uint(nbits)), big.NewInt(1))
		lowP := new(big.Int).And(q, mask)
		vals := []*big.Int{lowP, big.NewInt(0), big.NewInt(1), new(big.Int).And(rng.Big(new(big.Int).Lsh(big.NewInt(1), 250)), mask)}
		for vi, x := range vals {
			want := 0
			if new(big.Int).Mod(x, q).Sign() == 0 {
				want = 1
			}
			for _, mode := range []string{"engine", "r1cs"} {
				if mode == "r1cs" && vi > 1 {
					continue
				}
				for _, claim := range []int{want, 1 - want} {
					desc := map[string]interface{}{"field": name, "limbs": k, "value": x.String(), "claimed IsZero": claim, "mode": mode}
					var err error
					pm := catchPanic(func() {
						if mode == "engine" {
							err = test.IsSolved(&shortElemCircuit[T]{nbits: nbits}, &shortElemCircuit[T]{X: x, R: claim, nbits: nbits}, bnQ)
						} else {
							var ccs constraint.ConstraintSystem
							ccs, err = frontend.Compile(bnQ, r1cs.NewBuilder[constraint.U64], &shortElemCircuit[T]{nbits: nbits})
							if err == nil {
								wit, _ := frontend.NewWitness(&shortElemCircuit[T]{X: x, R: claim, nbits: nbits}, bnQ)
								_, err = ccs.Solve(wit)
							}
						}
					})
					rep.Eval(fmt.Sprintf("short|%s|%d|%s|%d|%s", name, k, x, claim, mode), true)
					rep.Count("short-element:" + mode)
					switch {
					case pm != "":
						rep.Fail("c12:iszero-short-element:panic", pm, desc)
					case claim == want && err != nil:
						rep.Fail("c12:iszero-short-element:rejects-right", "IsZero of an element on fewer limbs than the modulus: the right answer is rejected: "+shortErr(err), desc)
					case claim != want && err == nil:
						rep.Fail("c12:iszero-short-element:accepts-wrong", fmt.Sprintf("IsZero of an element on %d of %d limbs with value %s is accepted as %d", k, nl, x, claim), desc)
					}
				}
			}
		}
	}
}

type shortSubCircuit[T emulated.FieldParams] struct {
	X, Y  frontend.Variable
	D, N  emulated.Element[T] `gnark:",public"`
	nbits int
}

func (c *shortSubCircuit[T]) Define(api frontend.API) error {
	f, err := emulated.NewField[T](api)
	if err != nil {
		return err
	}
	a := f.FromBits(api.ToBinary(c.X, c.nbits)...)
	b := f.FromBits(api.ToBinary(c.Y, c.nbits)...)
	f.AssertIsEqual(f.Sub(a, b), &c.D)
	f.AssertIsEqual(f.Neg(b), &c.N)
	return nil
}

// Sub / Neg of elements that both sit on fewer limbs than the modulus
func shortSubs[T emulated.FieldParams](rep *Report, name string, rng *RNG) {
	var t T
	q, w, nl := t.Modulus(), int(t.BitsPerLimb()), int(t.NbLimbs())
	for k := 1; k < nl; k++ {
		nbits := k * w
		if nbits > 250 {
			break
		}
		lim := new(big.Int).Lsh(big.NewInt(1), uint(nbits))
		for trial := 0; trial < 2; trial++ {
			x, y := rng.Big(lim), rng.Big(lim)
			if trial == 1 {
				x, y = big.NewInt(3), new(big.Int).Sub(lim, big.NewInt(1))
			}
			d := new(big.Int).Sub(x, y)
			d.Mod(d, q)
			ng := new(big.Int).Neg(y)
			ng.Mod(ng, q)
			for _, wrong := range []bool{false, true} {
				dd := d
				if wrong {
					dd = new(big.Int).Add(d, big.NewInt(1))
					dd.Mod(dd, q)
				}
				asg := &shortSubCircuit[T]{X: x, Y: y, D: emulated.ValueOf[T](dd), N: emulated.ValueOf[T](ng), nbits: nbits}
				for _, mode := range []string{"engine", "r1cs"} {
					if mode == "r1cs" && (trial == 1 || k > 2) {
						continue
					}
					var err error
					pm := catchPanic(func() {
						if mode == "engine" {
							err = test.IsSolved(&shortSubCircuit[T]{nbits: nbits}, asg, bnQ)
						} else {
							var ccs constraint.ConstraintSystem
							ccs, err = frontend.Compile(bnQ, r1cs.NewBuilder[constraint.U64], &shortSubCircuit[T]{nbits: nbits})
							if err == nil {
								wit, _ := frontend.NewWitness(asg, bnQ)
								if obs := SolveCapture(ccs, wit, 1); obs.Class != "ok" {
									err = fmt.Errorf("%s %s", obs.Class, obs.Msg)
								}
							}
						}
					})
					desc := map[string]interface{}{"field": name, "limbs": k, "x": x.String(), "y": y.String(), "wrong": wrong, "mode": mode}
					rep.Eval(fmt.Sprintf("shortsub|%s|%d|%d|%v|%s", name, k, trial, wrong, mode), true)
					rep.Count("short-sub:" + mode)
					switch {
					case pm != "":
						rep.Fail("c12:short-operands:panic", pm, desc)
					case !wrong && err != nil:
						rep.Fail("c12:short-operands:rejects-right", "Sub / Neg of elements on fewer limbs than the modulus: the right result is rejected: "+shortErr(err), desc)
					case wrong && err == nil:
						rep.Fail("c12:short-operands:accepts-wrong", "Sub of elements on fewer limbs than the modulus: a wrong difference is accepted", desc)
					}
				}
			}
		}
	}
}

func c12ShortElems(rep *Report, rng *RNG) {
	topLimbForge[c12Odd](rep, "custom 2^127-1 (3x48)")
	topLimbForge[c12Small](rep, "custom 2^31-1 (2x16)")
	topLimbForge[emulated.P384Fp](rep, "p384.Fp")
	shortSubs[emulated.Secp256k1Fp](rep, "secp256k1.Fp", rng)
	shortSubs[emulated.BLS12381Fp](rep, "bls12-381.Fp", rng)
	shortSubs[c12Odd](rep, "custom 2^127-1 (3x48)", rng)
	shortElems[emulated.Secp256k1Fp](rep, "secp256k1.Fp", rng)
	shortElems[emulated.BLS12381Fp](rep, "bls12-381.Fp", rng)
	shortElems[emulated.Goldilocks](rep, "goldilocks", rng)
	shortElems[c12Small](rep, "custom 2^31-1 (2x16)", rng)
	shortElems[c12Odd](rep, "custom 2^127-1 (3x48)", rng)
}

// ---- a witness element whose top limb (narrower than the other limbs) is the FIELD quotient x / 2^shift of a small x: with
// a decomposition hint that answers with that limb itself, only a range check that looks the limb up both shifted and
// unshifted rejects it
type topLimbCircuit[T emulated.FieldParams] struct {
	X emulated.Element[T]
	R frontend.Variable `gnark:",public"`
}

func (c *topLimbCircuit[T]) Define(api frontend.API) error {
	f, err := emulated.NewField[T](api)
	if err != nil {
		return err
	}
	api.AssertIsEqual(f.IsZero(&c.X), c.R)
	return nil
}

func topLimbForge[T emulated.FieldParams](rep *Report, name string) {
	var t T
	w, nl := int(t.BitsPerLimb()), int(t.NbLimbs())
	topw := t.Modulus().BitLen() - w*(nl-1)
	if topw >= w {
		return
	}
	decompID := solver.GetHintID(rangecheck.DecomposeHint)
	ccs, err := frontend.Compile(bnQ, r1cs.NewBuilder[constraint.U64], &topLimbCircuit[T]{})
	if err != nil {
		rep.Fail("c12:compile-error:top-limb", err.Error(), name)
		return
	}
	limbs := make([]*big.Int, nl)
	for i := range limbs {
		limbs[i] = big.NewInt(1)
	}
	// first pass: learn the limb width of the range checker
	base := 0
	learn := func(q *big.Int, in, out []*big.Int) error {
		base = int(in[1].Int64())
		return rangecheck.DecomposeHint(q, in, out)
	}
	w0, _ := frontend.NewWitness(&topLimbCircuit[T]{X: rawElement[T](limbs), R: 0}, bnQ)
	SolveCapture(ccs, w0, 1, solver.OverrideHint(decompID, learn))
	if base == 0 || topw%base == 0 {
		rep.Count("top-limb-forge:not-applicable")
		return
	}
	k := (topw + base - 1) / base
	shift := base*k - topw
	m := new(big.Int).Mul(big.NewInt(5), new(big.Int).ModInverse(new(big.Int).Lsh(big.NewInt(1), uint(shift)), bnQ))
	m.Mod(m, bnQ)
	V := new(big.Int).Mul(m, new(big.Int).Lsh(big.NewInt(1), uint(base*(k-1))))
	V.Mod(V, bnQ)
	limbs[nl-1] = V
	wit, _ := frontend.NewWitness(&topLimbCircuit[T]{X: rawElement[T](limbs), R: 0}, bnQ)
	forged := func(q *big.Int, in, out []*big.Int) error {
		if in[2].Cmp(V) == 0 {
			for i := range out {
				out[i].SetInt64(0)
			}
			out[len(out)-1].Set(m)
			return nil
		}
		return rangecheck.DecomposeHint(q, in, out)
	}
	var countID solver.HintID
	for _, h := range solver.GetRegisteredHints() {
		if strings.HasSuffix(solver.GetHintName(h), "logderivarg.countHint") || strings.HasSuffix(solver.GetHintName(h), "countHint") {
			countID = solver.GetHintID(h)
		}
	}
	lenient := func(q *big.Int, in, out []*big.Int) error {
		nbTable := int(in[0].Int64())
		for i := range out {
			out[i].SetInt64(0)
		}
		for _, x := range in[2+nbTable:] {
			if x.IsInt64() && x.Int64() >= 0 && x.Int64() < int64(nbTable) {
				out[x.Int64()].Add(out[x.Int64()], big.NewInt(1))
			}
		}
		return nil
	}
	obs := SolveCapture(ccs, wit, 1, solver.OverrideHint(decompID, forged), solver.OverrideHint(countID, lenient))
	rep.Eval("top-limb-forge|"+name, true)
	rep.Count("top-limb-forge:" + obs.Class)
	if obs.Class == "ok" {
		rep.Fail("c12:forged-accepted:top-limb-field-quotient", fmt.Sprintf("%s: an element whose %d-bit top limb is 5 / 2^%d in the native field (range checker limb width %d) is accepted as a witness", name, topw, shift, base),
			map[string]interface{}{"field": name, "top limb width": topw, "base": base})
	}
}
