package main

import (
	"math/big"

	fr377 "github.com/consensys/gnark-crypto/ecc/bls12-377/fr"
	pos377p "github.com/consensys/gnark-crypto/ecc/bls12-377/fr/poseidon2"
	fr254 "github.com/consensys/gnark-crypto/ecc/bn254/fr"
	pos254p "github.com/consensys/gnark-crypto/ecc/bn254/fr/poseidon2"
)

func poseidonPerm254(t, rf, rp int, in []*big.Int) []*big.Int {
	p := pos254p.NewPermutation(t, rf, rp)
	st := make([]fr254.Element, len(in))
	for i := range in {
		st[i].SetBigInt(in[i])
	}
	if err := p.Permutation(st); err != nil {
		panic(err)
	}
	out := make([]*big.Int, len(in))
	for i := range st {
		out[i] = st[i].BigInt(new(big.Int))
	}
	return out
}

func poseidonPerm377(t, rf, rp int, in []*big.Int) []*big.Int {
	p := pos377p.NewPermutation(t, rf, rp)
	st := make([]fr377.Element, len(in))
	for i := range in {
		st[i].SetBigInt(in[i])
	}
	if err := p.Permutation(st); err != nil {
		panic(err)
	}
	out := make([]*big.Int, len(in))
	for i := range st {
		out[i] = st[i].BigInt(new(big.Int))
	}
	return out
}
