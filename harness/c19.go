package main

// C19: GKR-delegated computation equals direct computation and cannot be forged.

import (
	"fmt"
	stdhash "hash"
	"math/big"
	"strings"
	"sync"

	"github.com/consensys/gnark-crypto/ecc/bn254/fr"
	mimc254h "github.com/consensys/gnark-crypto/ecc/bn254/fr/mimc"
	"github.com/consensys/gnark/constraint"
	cs_bn254 "github.com/consensys/gnark/constraint/bn254"
	"github.com/consensys/gnark/constraint/solver"
	"github.com/consensys/gnark/frontend"
	"github.com/consensys/gnark/frontend/cs/r1cs"
	"github.com/consensys/gnark/frontend/cs/scs"
	"github.com/consensys/gnark/std/gkr"
	stdHash "github.com/consensys/gnark/std/hash"
	"github.com/consensys/gnark/std/hash/mimc"
	"github.com/consensys/gnark/std/polynomial"
	"github.com/consensys/gnark/test"
)

func init() { commands["c19"] = runC19 }

type gkrOp struct {
	Gate string `json:"gate"`
	In   []int  `json:"in"`
}
type gkrTopo struct {
	NIn    int     `json:"nin"`
	Ops    []gkrOp `json:"ops"`
	Series bool    `json:"series"` // input 0 of instance i>0 is output 0 of instance i-1
	Deps   [][2]int `json:"deps,omitempty"` // explicit dependencies (input instance, output instance) of input 0 on sink 0
}

func (t *gkrTopo) String() string {
	var ss []string
	for _, o := range t.Ops {
		ss = append(ss, fmt.Sprintf("%s%v", o.Gate, o.In))
	}
	return fmt.Sprintf("in%d;%s;series=%v", t.NIn, strings.Join(ss, ","), t.Series)
}

// sinks: wires used by no other wire
func (t *gkrTopo) sinks() []int {
	used := map[int]bool{}
	for _, o := range t.Ops {
		for _, i := range o.In {
			used[i] = true
		}
	}
	var out []int
	for w := t.NIn; w < t.NIn+len(t.Ops); w++ {
		if !used[w] {
			out = append(out, w)
		}
	}
	return out
}

const c19Gate = "verif-sqadd" // (x, y) -> x*x + y

var c19Once sync.Once

func c19Register() {
	c19Once.Do(func() {
		if err := gkr.RegisterGate(c19Gate, func(api gkr.GateAPI, in ...frontend.Variable) frontend.Variable {
			return api.Add(api.Mul(in[0], in[0]), in[1])
		}, 2); err != nil {
			panic(err)
		}
		if err := gkr.VerifRegisterNativeGateBN254(c19Gate, func(in ...fr.Element) (r fr.Element) {
			r.Square(&in[0]).Add(&r, &in[1])
			return
		}, 2); err != nil {
			panic(err)
		}
		cs_bn254.RegisterHashBuilder("mimc", func() stdhash.Hash { return mimc254h.NewMiMC() })
		stdHash.Register("mimc", func(api frontend.API) (stdHash.FieldHasher, error) {
			m, err := mimc.NewMiMC(api)
			return &m, err
		})
	})
}

func evalGate(g string, in []*big.Int) *big.Int {
	r := new(big.Int)
	switch g {
	case "add2":
		r.Add(in[0], in[1])
	case "sub2":
		r.Sub(in[0], in[1])
	case "mul2":
		r.Mul(in[0], in[1])
	case "neg":
		r.Neg(in[0])
	case "identity":
		r.Set(in[0])
	case c19Gate:
		r.Mul(in[0], in[0]).Add(r, in[1])
	}
	return r.Mod(r, bnQ)
}

// direct evaluation: vals[instance][wire]
func (t *gkrTopo) eval(inputs [][]*big.Int) [][]*big.Int {
	n := len(inputs)
	vals := make([][]*big.Int, n)
	order := make([]int, 0, n)
	done := make([]bool, n)
	for len(order) < n {
		for i := 0; i < n; i++ {
			if done[i] {
				continue
			}
			ready := true
			for _, d := range t.Deps {
				if d[0] == i && !done[d[1]] {
					ready = false
				}
			}
			if ready {
				done[i] = true
				order = append(order, i)
			}
		}
	}
	for _, i := range order {
		v := make([]*big.Int, t.NIn+len(t.Ops))
		copy(v, inputs[i])
		if t.Series && i > 0 {
			v[0] = vals[i-1][t.sinks()[0]]
		}
		for _, d := range t.Deps {
			if d[0] == i {
				v[0] = vals[d[1]][t.sinks()[0]]
			}
		}
		for k, o := range t.Ops {
			in := make([]*big.Int, len(o.In))
			for j, w := range o.In {
				in[j] = v[w]
			}
			v[t.NIn+k] = evalGate(o.Gate, in)
		}
		vals[i] = v
	}
	return vals
}

type gkrCircuit struct {
	In   [][]frontend.Variable // [input][instance]
	Out  [][]frontend.Variable `gnark:",public"` // [sink][instance]
	topo *gkrTopo
	ninst int
	vfirst bool // call Solution.Verify before Export (the exported / imported values must not be touched by the verifier)
}

func newGkrCircuit(t *gkrTopo, n int) *gkrCircuit {
	c := &gkrCircuit{topo: t, ninst: n}
	c.In = make([][]frontend.Variable, t.NIn)
	for i := range c.In {
		c.In[i] = make([]frontend.Variable, n)
	}
	c.Out = make([][]frontend.Variable, len(t.sinks()))
	for i := range c.Out {
		c.Out[i] = make([]frontend.Variable, n)
	}
	return c
}

func (c *gkrCircuit) Define(api frontend.API) error {
	c19Register()
	t := c.topo
	g := gkr.NewApi()
	vars := make([]constraint.GkrVariable, 0, t.NIn+len(t.Ops))
	for i := 0; i < t.NIn; i++ {
		asg := append([]frontend.Variable{}, c.In[i]...)
		if t.Series && i == 0 {
			for k := 1; k < len(asg); k++ {
				asg[k] = nil
			}
		}
		if i == 0 {
			for _, d := range t.Deps {
				asg[d[0]] = nil
			}
		}
		v, err := g.Import(asg)
		if err != nil {
			return err
		}
		vars = append(vars, v)
	}
	for _, o := range t.Ops {
		in := make([]constraint.GkrVariable, len(o.In))
		for j, w := range o.In {
			in[j] = vars[w]
		}
		vars = append(vars, g.NamedGate(gkr.GateName(o.Gate), in...))
	}
	sinks := t.sinks()
	if t.Series {
		for k := 1; k < c.ninst; k++ {
			g.Series(vars[0], vars[sinks[0]], k, k-1)
		}
	}
	for _, d := range t.Deps {
		g.Series(vars[0], vars[sinks[0]], d[0], d[1])
	}
	sol, err := g.Solve(api)
	if err != nil {
		return err
	}
	if c.vfirst {
		if err := sol.Verify("mimc"); err != nil {
			return err
		}
	}
	// exported values: equal to the expected (public) ones AND to the direct in-circuit evaluation
	exported := make([][]frontend.Variable, len(sinks))
	for si, w := range sinks {
		exported[si] = sol.Export(vars[w])
		for k := range exported[si] {
			api.AssertIsEqual(exported[si][k], c.Out[si][k])
		}
	}
	for k := 0; k < c.ninst; k++ {
		v := make([]frontend.Variable, t.NIn+len(t.Ops))
		for i := 0; i < t.NIn; i++ {
			v[i] = c.In[i][k]
		}
		if t.Series && k > 0 {
			v[0] = exported[0][k-1]
		}
		for _, d := range t.Deps {
			if d[0] == k {
				v[0] = exported[0][d[1]]
			}
		}
		for oi, o := range t.Ops {
			var r frontend.Variable
			switch o.Gate {
			case "add2":
				r = api.Add(v[o.In[0]], v[o.In[1]])
			case "sub2":
				r = api.Sub(v[o.In[0]], v[o.In[1]])
			case "mul2":
				r = api.Mul(v[o.In[0]], v[o.In[1]])
			case "neg":
				r = api.Neg(v[o.In[0]])
			case "identity":
				r = v[o.In[0]]
			case c19Gate:
				r = api.Add(api.Mul(v[o.In[0]], v[o.In[0]]), v[o.In[1]])
			}
			v[t.NIn+oi] = r
		}
		for si, w := range sinks {
			api.AssertIsEqual(exported[si][k], v[w])
		}
	}
	if c.vfirst {
		return nil
	}
	return sol.Verify("mimc")
}

func genTopo(r *RNG) *gkrTopo {
	t := &gkrTopo{NIn: 1 + r.Intn(3)}
	gates := []string{"add2", "mul2", "sub2", "neg", "identity", c19Gate, "mul2", "add2"}
	nops := 2 + r.Intn(5)
	used := map[int]bool{}
	for len(t.Ops) < nops {
		g := gates[r.Intn(len(gates))]
		n := t.NIn + len(t.Ops)
		pick := func() int {
			// prefer unused inputs so that every input is consumed
			for i := 0; i < t.NIn; i++ {
				if !used[i] && r.Intn(2) == 0 {
					return i
				}
			}
			return r.Intn(n)
		}
		var in []int
		switch g {
		case "neg", "identity":
			in = []int{pick()}
		default:
			in = []int{pick(), pick()}
		}
		for _, i := range in {
			used[i] = true
		}
		t.Ops = append(t.Ops, gkrOp{g, in})
	}
	// every input must be used
	for i := 0; i < t.NIn; i++ {
		if !used[i] {
			t.Ops = append(t.Ops, gkrOp{"add2", []int{i, t.NIn + len(t.Ops) - 1}})
			used[i] = true
		}
	}
	t.Series = r.Intn(3) == 0
	return t
}

type c19Desc struct {
	Topo   *gkrTopo `json:"topo"`
	NInst  int      `json:"instances"`
	Mode   string   `json:"mode"`
	Detail string   `json:"detail,omitempty"`
}

type ldeCircuit struct {
	At   frontend.Variable
	Vals []frontend.Variable
	Exp  frontend.Variable `gnark:",public"`
}

func (c *ldeCircuit) Define(api frontend.API) error {
	api.AssertIsEqual(polynomial.InterpolateLDE(api, c.At, c.Vals), c.Exp)
	return nil
}

func runC19(args []string) int {
	o := parseOpts(args)
	rng := NewRNG(o.Seed)
	rep := NewReport("C19")
	rep.Rule = "bn254: seeded GKR topologies (add / mul / sub / neg / identity and a custom degree-2 gate, fan-out, 1..3 inputs, 2..7 gates, optional series dependency between consecutive instances), 1 / 2 / 4 / 8 instances, Fiat-Shamir hash MiMC: in the test engine and on compiled R1CS / SCS the exported values must equal both the expected values (big-integer direct evaluation) and the direct in-circuit evaluation of the same gates, and the circuit must reject wrong expected outputs; adversary on the compiled system (the solver's GKR hints are detached and replaced): exported values altered with the honest proof, each proof element altered, and a self-consistent run on other inputs (values and proof for a different assignment); the executable Gallina Lagrange interpolation is compared with std/polynomial.InterpolateLDE; non-trivial = every (topology, instances, mode, variant); distinct as counted"
	c19Register()
	ntopo := 6
	if o.Thorough() {
		ntopo = 40
	}
	type job struct {
		t      *gkrTopo
		n      int
		mode   string
		in     [][]*big.Int
		wrong  bool
		vfirst bool
		cls    string
		msg    string
	}
	var jobs []*job
	mkAsg := func(t *gkrTopo, n int, in [][]*big.Int, wrong bool) *gkrCircuit {
		vals := t.eval(in)
		a := newGkrCircuit(t, n)
		for i := 0; i < t.NIn; i++ {
			for k := 0; k < n; k++ {
				a.In[i][k] = in[k][i]
			}
		}
		for si, w := range t.sinks() {
			for k := 0; k < n; k++ {
				a.Out[si][k] = vals[k][w]
			}
		}
		if wrong {
			a.Out[0][n-1] = new(big.Int).Add(vals[n-1][t.sinks()[0]], big.NewInt(1))
		}
		return a
	}
	runOne := func(j *job) {
		tmpl := newGkrCircuit(j.t, j.n)
		asg := mkAsg(j.t, j.n, j.in, j.wrong)
		tmpl.vfirst, asg.vfirst = j.vfirst, j.vfirst
		if j.mode == "engine" {
			var err error
			pm := catchPanic(func() { err = test.IsSolved(tmpl, asg, bnQ) })
			switch {
			case pm != "":
				j.cls, j.msg = "panic", pm
			case err != nil:
				j.cls, j.msg = "unsat", shortErr(err)
			default:
				j.cls = "ok"
			}
			return
		}
		var ccs constraint.ConstraintSystem
		var err error
		pm := catchPanic(func() {
			if j.mode == "r1cs" {
				ccs, err = frontend.Compile(bnQ, r1cs.NewBuilder[constraint.U64], tmpl)
			} else {
				ccs, err = frontend.Compile(bnQ, scs.NewBuilder[constraint.U64], tmpl)
			}
		})
		if pm != "" || err != nil {
			j.cls, j.msg = "compile-error", fmt.Sprint(pm, err)
			return
		}
		w, _ := frontend.NewWitness(asg, bnQ)
		pm = catchPanic(func() { _, err = ccs.Solve(w) })
		switch {
		case pm != "":
			j.cls, j.msg = "panic", pm
		case err != nil:
			j.cls, j.msg = "unsat", shortErr(err)
		default:
			j.cls = "ok"
		}
	}
	var topos []*gkrTopo
	for ti := 0; ti < ntopo; ti++ {
		t := genTopo(rng)
		topos = append(topos, t)
		ninsts := []int{2 << uint(ti%3)}
		if o.Thorough() {
			ninsts = []int{2, 4, 8}
		}
		if ti == 0 {
			ninsts = append(ninsts, 1) // 2^0 instances: accepted by Import
		}
		for _, n := range ninsts {
			in := make([][]*big.Int, n)
			for k := range in {
				in[k] = make([]*big.Int, t.NIn)
				for i := range in[k] {
					in[k][i] = rng.FieldElem(bnQ)
				}
			}
			modes := []string{"engine", "r1cs"}
			if ti%2 == 0 || o.Thorough() {
				modes = append(modes, "scs")
			}
			for _, m := range modes {
				jobs = append(jobs, &job{t: t, n: n, mode: m, in: in})
			}
			jobs = append(jobs, &job{t: t, n: n, mode: "engine", in: in, wrong: true}, &job{t: t, n: n, mode: "r1cs", in: in, wrong: true})
			if n > 1 {
				jobs = append(jobs, &job{t: t, n: n, mode: "engine", in: in, vfirst: true}, &job{t: t, n: n, mode: "r1cs", in: in, vfirst: true})
			}
			if ti == 1 {
				// 16 instances: the verifier's table evaluation takes its scaled-folding path from 16 entries on
				in16 := make([][]*big.Int, 16)
				for k := range in16 {
					in16[k] = make([]*big.Int, t.NIn)
					for i := range in16[k] {
						in16[k][i] = rng.FieldElem(bnQ)
					}
				}
				jobs = append(jobs, &job{t: t, n: 16, mode: "engine", in: in16}, &job{t: t, n: 16, mode: "engine", in: in16, vfirst: true}, &job{t: t, n: 16, mode: "r1cs", in: in16, vfirst: true})
			}
		}
	}
	// crossing / non-monotone series dependencies between instances (4 instances)
	for di, deps := range [][][2]int{{{2, 1}, {3, 0}}, {{0, 2}, {2, 1}}, {{1, 3}, {0, 1}}} {
		t := &gkrTopo{NIn: 2, Ops: []gkrOp{{"mul2", []int{0, 1}}}, Deps: deps}
		if di == 2 {
			t.Ops = []gkrOp{{"add2", []int{0, 1}}, {c19Gate, []int{2, 0}}}
		}
		topos = append(topos, t)
		in := make([][]*big.Int, 4)
		for k := range in {
			in[k] = []*big.Int{big.NewInt(int64(2 + k)), big.NewInt(int64(11 + 3*k))}
		}
		for _, m := range []string{"engine", "r1cs"} {
			jobs = append(jobs, &job{t: t, n: 4, mode: m, in: in})
		}
	}
	// the GKR prover keeps its solving data in package-level state keyed by the modulus in the test engine: run the
	// engine jobs one at a time, the compiled ones in parallel
	var wg sync.WaitGroup
	sem := make(chan struct{}, 8)
	for _, j := range jobs {
		if j.mode == "engine" {
			continue
		}
		j := j
		wg.Add(1)
		sem <- struct{}{}
		go func() { defer wg.Done(); defer func() { <-sem }(); runOne(j) }()
	}
	for _, j := range jobs {
		if j.mode == "engine" {
			runOne(j)
		}
	}
	wg.Wait()
	for _, j := range jobs {
		desc := c19Desc{Topo: j.t, NInst: j.n, Mode: j.mode, Detail: j.msg}
		rep.Eval(fmt.Sprintf("%s|%d|%s|%v|%v", j.t, j.n, j.mode, j.wrong, j.vfirst), true)
		if j.vfirst {
			desc.Mode += "/verify-before-export"
		}
		rep.Count(fmt.Sprintf("%s:%v:%s", j.mode, map[bool]string{false: "valid", true: "wrong-output"}[j.wrong], j.cls))
		for _, op := range j.t.Ops {
			if !j.wrong && j.mode == "engine" {
				rep.Count("gate:" + op.Gate)
			}
		}
		if len(rep.Samples) < 5 {
			rep.Sample(desc)
		}
		switch {
		case j.n == 1 && !j.wrong && j.cls != "ok":
			rep.Fail("c19:single-instance:"+j.mode, "a GKR circuit with a single instance (2^0, accepted by Import) cannot be compiled / solved: "+strings.SplitN(j.msg, "\n", 2)[0], desc)
		case j.n == 1:
		case j.cls == "panic" || j.cls == "compile-error":
			rep.Fail("c19:"+j.cls+":"+j.mode, j.msg, desc)
		case !j.wrong && j.cls != "ok":
			rep.Fail("c19:rejects-direct-evaluation:"+j.mode, "the GKR-delegated circuit rejects the values of the direct evaluation: "+j.msg, desc)
		case j.wrong && j.cls == "ok":
			rep.Fail("c19:accepts-wrong-output:"+j.mode, "the GKR-delegated circuit accepts an exported value that differs from the direct evaluation", desc)
		}
	}
	// ---- adversary: detach the solver's own GKR hints and run forged ones
	for ti, t := range topos {
		if ti >= 3 && !o.Thorough() {
			break
		}
		n := 2 << uint(ti%2)
		if len(t.Deps) > 0 {
			n = 4 // the explicit dependency patterns are written for 4 instances
		}
		in := make([][]*big.Int, n)
		for k := range in {
			in[k] = make([]*big.Int, t.NIn)
			for i := range in[k] {
				in[k][i] = new(big.Int).Add(rng.Big(bnQ), big.NewInt(2))
			}
		}
		tmpl := newGkrCircuit(t, n)
		ccs, err := frontend.Compile(bnQ, r1cs.NewBuilder[constraint.U64], tmpl)
		if err != nil {
			rep.Fail("c19:compile-error:adversary", err.Error(), c19Desc{Topo: t, NInst: n})
			continue
		}
		sys := ccs.(*cs_bn254.R1CS)
		info := sys.GkrInfo
		origSolve, origProve := info.SolveHintID, info.ProveHintID
		// the solver re-installs its hints under the IDs recorded in GkrInfo: point them elsewhere
		sys.GkrInfo.SolveHintID = solver.HintID(0x7ffffff1)
		sys.GkrInfo.ProveHintID = solver.HintID(0x7ffffff2)
		type variant struct {
			name     string
			solveMut func(ins, outs []*big.Int) // after the honest solve
			insMut   func(ins []*big.Int)       // before the solve: the prover runs on other inputs
			proveMut func(outs []*big.Int)
			honest   bool
		}
		variants := []variant{
			{name: "honest (detached hints)", honest: true},
			{name: "exported value + 1, honest proof", solveMut: func(ins, outs []*big.Int) { outs[0].Add(outs[0], big.NewInt(1)).Mod(outs[0], bnQ) }},
			{name: "last exported value replaced", solveMut: func(ins, outs []*big.Int) { outs[len(outs)-1].SetInt64(7) }},
			{name: "self-consistent run on another first input", insMut: func(ins []*big.Int) { ins[0] = new(big.Int).Add(ins[0], big.NewInt(1)) }},
		}
		// proof elements: learn the size with an honest run first
		proofLen := 0
		{
			var data cs_bn254.GkrSolvingData
			solveF := cs_bn254.GkrSolveHint(info, &data)
			proveF := cs_bn254.GkrProveHint("mimc", &data)
			w, _ := frontend.NewWitness(mkAsg(t, n, in, false), bnQ)
			_, err := sys.Solve(w, solver.OverrideHint(origSolve, solveF), solver.OverrideHint(origProve, func(m *big.Int, i, o []*big.Int) error {
				proofLen = len(o)
				return proveF(m, i, o)
			}))
			if err != nil {
				rep.Fail("c19:detached-hints-fail", "solving with the library's own GKR hint functions installed by hand fails: "+shortErr(err), c19Desc{Topo: t, NInst: n})
				continue
			}
		}
		for k := 0; k < proofLen; k++ {
			k := k
			if !o.Thorough() && proofLen > 12 && k%((proofLen+11)/12) != 0 {
				continue
			}
			variants = append(variants, variant{name: fmt.Sprintf("proof element %d + 1", k), proveMut: func(outs []*big.Int) { outs[k].Add(outs[k], big.NewInt(1)).Mod(outs[k], bnQ) }})
		}
		for _, v := range variants {
			var data cs_bn254.GkrSolvingData
			solveF := cs_bn254.GkrSolveHint(info, &data)
			proveF := cs_bn254.GkrProveHint("mimc", &data)
			fs := func(m *big.Int, ins, outs []*big.Int) error {
				ins2 := make([]*big.Int, len(ins))
				for i := range ins {
					ins2[i] = new(big.Int).Set(ins[i])
				}
				if v.insMut != nil {
					v.insMut(ins2)
				}
				if err := solveF(m, ins2, outs); err != nil {
					return err
				}
				if v.solveMut != nil {
					v.solveMut(ins, outs)
				}
				return nil
			}
			fp := func(m *big.Int, ins, outs []*big.Int) error {
				if err := proveF(m, ins, outs); err != nil {
					return err
				}
				if v.proveMut != nil {
					v.proveMut(outs)
				}
				return nil
			}
			// the expected (public) outputs follow whatever the solve hint exported, so that only the GKR verifier can object
			asg := mkAsg(t, n, in, false)
			if v.insMut != nil {
				in2 := make([][]*big.Int, n)
				for k := range in {
					in2[k] = append([]*big.Int{}, in[k]...)
				}
				// the first hint input is input 0 of the first instance in the solver's order; recompute expected outputs for every
				// single-position change is not needed: the public outputs are left as the honest ones and must be contradicted
				_ = in2
			}
			w, _ := frontend.NewWitness(asg, bnQ)
			var serr error
			pm := catchPanic(func() { _, serr = sys.Solve(w, solver.OverrideHint(origSolve, fs), solver.OverrideHint(origProve, fp)) })
			rep.Eval(fmt.Sprintf("forge|%s|%s", t, v.name), true)
			cls := "ok"
			if pm != "" {
				cls = "panic"
			} else if serr != nil {
				cls = "unsat"
			}
			rep.Count("forge:" + cls)
			desc := c19Desc{Topo: t, NInst: n, Mode: "r1cs/forged", Detail: v.name}
			if v.honest && cls != "ok" {
				rep.Fail("c19:detached-hints-fail", "honest run with detached hints fails: "+pm+shortErr(serr), desc)
			}
			if !v.honest && cls == "ok" {
				rep.Fail("c19:forged-accepted:"+strings.SplitN(v.name, " ", 2)[0], "a forged GKR run is accepted: "+v.name, desc)
			}
			if cls == "panic" {
				rep.Fail("c19:panic:forged", pm, desc)
			}
		}
		// altered exported values with public outputs following them: only the GKR verifier stands in the way
		{
			var data cs_bn254.GkrSolvingData
			solveF := cs_bn254.GkrSolveHint(info, &data)
			proveF := cs_bn254.GkrProveHint("mimc", &data)
			vals := t.eval(in)
			asg := mkAsg(t, n, in, false)
			// the circuit also compares the export with the direct in-circuit evaluation, so this must fail twice over;
			// keep the public outputs equal to the forged export to isolate the comparison with direct evaluation
			asg.Out[0][0] = new(big.Int).Add(vals[0][t.sinks()[0]], big.NewInt(1))
			w, _ := frontend.NewWitness(asg, bnQ)
			fs := func(m *big.Int, ins, outs []*big.Int) error {
				if err := solveF(m, ins, outs); err != nil {
					return err
				}
				return nil
			}
			var serr error
			pm := catchPanic(func() { _, serr = sys.Solve(w, solver.OverrideHint(origSolve, fs), solver.OverrideHint(origProve, proveF)) })
			rep.Eval(fmt.Sprintf("forge|%s|public-output-changed", t), true)
			if pm == "" && serr == nil {
				rep.Fail("c19:forged-accepted:public-output", "a public output differing from the export is accepted", c19Desc{Topo: t, NInst: n})
			}
		}
		sys.GkrInfo.SolveHintID, sys.GkrInfo.ProveHintID = origSolve, origProve
	}
	// ---- InterpolateLDE against the Gallina lde and direct evaluation
	var ldeCases []string
	for d := 1; d <= 6; d++ { // the verifier always interpolates from at least two values
		coef := make([]*big.Int, d+1)
		for i := range coef {
			coef[i] = rng.FieldElem(bnQ)
		}
		ev := func(x *big.Int) *big.Int {
			r := new(big.Int)
			for i := d; i >= 0; i-- {
				r.Mul(r, x).Add(r, coef[i]).Mod(r, bnQ)
			}
			return r
		}
		vals := make([]*big.Int, d+1)
		for i := range vals {
			vals[i] = ev(big.NewInt(int64(i)))
		}
		for _, at := range []*big.Int{big.NewInt(0), big.NewInt(int64(d)), big.NewInt(int64(d + 1)), rng.Big(bnQ), new(big.Int).Sub(bnQ, big.NewInt(1))} {
			want := ev(at)
			tmpl := &ldeCircuit{Vals: make([]frontend.Variable, d+1)}
			asg := &ldeCircuit{At: at, Vals: make([]frontend.Variable, d+1), Exp: want}
			for i := range vals {
				asg.Vals[i] = vals[i]
			}
			err := test.IsSolved(tmpl, asg, bnQ)
			rep.Eval(fmt.Sprintf("lde|%d|%s", d, at), true)
			if err != nil {
				rep.Fail("c19:interpolate-lde", fmt.Sprintf("InterpolateLDE of a degree-%d polynomial at %s differs from its evaluation: %s", d, at, shortErr(err)), nil)
			}
			ldeCases = append(ldeCases, fmt.Sprintf("(%s, %s, %s)", zlist(vals), zlit(at), zlit(want)))
		}
	}
	writeFile(o.Out, "cases_C19.v", "From Coq Require Import ZArith List Bool.\nFrom GnarkV Require Import Std.SumcheckCases.\nImport ListNotations.\n"+
		fmt.Sprintf("Definition ldecases : list (list Z * Z * Z) := %s.\nDefinition mism_lde := Eval vm_compute in lde_mismatches %s 0 ldecases.\nPrint mism_lde.\n", coqlistNL(ldeCases), zlit(bnQ)))
	rep.CoqCases = len(ldeCases)
	c19Poseidon2(rep, rng)
	// ---- the executable Gallina GKR verifier against the observed in-circuit verifier
	gk := c19ModelTie(o, rng, rep, topos)
	const shard = 6
	for s := 0; s*shard < len(gk); s++ {
		hi := (s + 1) * shard
		if hi > len(gk) {
			hi = len(gk)
		}
		writeFile(o.Out, fmt.Sprintf("cases_C19_gkr_%d.v", s), "From Coq Require Import ZArith List Bool.\nFrom GnarkV Require Import Std.Gkr Std.GkrCases.\nImport ListNotations.\nLocal Open Scope Z_scope.\n"+
			fmt.Sprintf("Definition gkrcases : list gcase := %s.\nDefinition mism_gkr_%d := Eval vm_compute in gkr_mismatches %s 0 gkrcases.\nPrint mism_gkr_%d.\n", coqlistNL(gk[s*shard:hi]), s, zlit(bnQ), s))
	}
	rep.CoqCases += len(gk)
	rep.Write(o.Out)
	return 0
}
