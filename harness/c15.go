package main

// C15: in-circuit hash functions equal their reference implementations for all messages.

import (
	"bytes"
	"crypto/sha256"
	"fmt"
	stdhash "hash"
	"math/big"
	"strings"
	"sync"

	"github.com/consensys/gnark-crypto/accumulator/merkletree"
	"github.com/consensys/gnark-crypto/ecc"
	mimc377 "github.com/consensys/gnark-crypto/ecc/bls12-377/fr/mimc"
	pos377 "github.com/consensys/gnark-crypto/ecc/bls12-377/fr/poseidon2"
	mimc381 "github.com/consensys/gnark-crypto/ecc/bls12-381/fr/mimc"
	mimc315 "github.com/consensys/gnark-crypto/ecc/bls24-315/fr/mimc"
	mimc317 "github.com/consensys/gnark-crypto/ecc/bls24-317/fr/mimc"
	mimc254 "github.com/consensys/gnark-crypto/ecc/bn254/fr/mimc"
	pos254 "github.com/consensys/gnark-crypto/ecc/bn254/fr/poseidon2"
	mimc633 "github.com/consensys/gnark-crypto/ecc/bw6-633/fr/mimc"
	mimc761 "github.com/consensys/gnark-crypto/ecc/bw6-761/fr/mimc"
	fiatshamir "github.com/consensys/gnark-crypto/fiat-shamir"
	"github.com/consensys/gnark/constraint"
	"github.com/consensys/gnark/frontend"
	"github.com/consensys/gnark/frontend/cs/r1cs"
	"github.com/consensys/gnark/frontend/cs/scs"
	"github.com/consensys/gnark/std/accumulator/merkle"
	fsgadget "github.com/consensys/gnark/std/fiat-shamir"
	"github.com/consensys/gnark/std/hash"
	"github.com/consensys/gnark/std/hash/mimc"
	"github.com/consensys/gnark/std/hash/poseidon2"
	ripemd160g "github.com/consensys/gnark/std/hash/ripemd160"
	"github.com/consensys/gnark/std/hash/sha2"
	"github.com/consensys/gnark/std/hash/sha3"
	"github.com/consensys/gnark/std/math/uints"
	posperm "github.com/consensys/gnark/std/permutation/poseidon2"
	"github.com/consensys/gnark/test"
	"golang.org/x/crypto/ripemd160"
	xsha3 "golang.org/x/crypto/sha3"
)

func init() { commands["c15"] = runC15 }

type binHashCircuit struct {
	In     []uints.U8
	Len    frontend.Variable
	Exp    []uints.U8 `gnark:",public"`
	kind   string
	min    int
	chunks []int // write chunking
	useLen bool
}

func newBinHasher(api frontend.API, kind string, min int) (hash.BinaryHasher, error) {
	var opts []hash.Option
	if min > 0 {
		opts = append(opts, hash.WithMinimalLength(min))
	}
	switch kind {
	case "sha256":
		return sha2.New(api, opts...)
	case "sha3-256":
		return sha3.New256(api, opts...)
	case "sha3-384":
		return sha3.New384(api, opts...)
	case "sha3-512":
		return sha3.New512(api, opts...)
	case "keccak256":
		return sha3.NewLegacyKeccak256(api, opts...)
	case "keccak512":
		return sha3.NewLegacyKeccak512(api, opts...)
	case "ripemd160":
		return ripemd160gadget(api)
	}
	return nil, fmt.Errorf("unknown %s", kind)
}

func ripemd160gadget(api frontend.API) (hash.BinaryHasher, error) { return ripemd160g.New(api) }

func refBinHash(kind string) stdhash.Hash {
	switch kind {
	case "sha256":
		return sha256.New()
	case "sha3-256":
		return xsha3.New256()
	case "sha3-384":
		return xsha3.New384()
	case "sha3-512":
		return xsha3.New512()
	case "keccak256":
		return xsha3.NewLegacyKeccak256()
	case "keccak512":
		return xsha3.NewLegacyKeccak512()
	case "ripemd160":
		return ripemd160.New()
	}
	return nil
}

func binRate(kind string) int {
	switch kind {
	case "sha256", "ripemd160":
		return 64
	case "sha3-256", "keccak256":
		return 136
	case "sha3-384":
		return 104
	default:
		return 72
	}
}

func (c *binHashCircuit) Define(api frontend.API) error {
	h, err := newBinHasher(api, c.kind, c.min)
	if err != nil {
		return err
	}
	uapi, err := uints.New[uints.U32](api)
	if err != nil {
		return err
	}
	pos := 0
	for _, n := range c.chunks {
		h.Write(c.In[pos : pos+n])
		pos += n
	}
	h.Write(c.In[pos:])
	var res []uints.U8
	if c.useLen {
		res = h.(hash.BinaryFixedLengthHasher).FixedLengthSum(c.Len)
	} else {
		res = h.Sum()
	}
	if len(res) != len(c.Exp) {
		return fmt.Errorf("digest size %d expected %d", len(res), len(c.Exp))
	}
	for i := range res {
		uapi.ByteAssertEq(res[i], c.Exp[i])
	}
	return nil
}

// the caller's buffer must not be touched by a hasher: a prefix is hashed first, then the whole message with a second hasher
type prefixWholeCircuit struct {
	In   []uints.U8
	Exp1 []uints.U8 `gnark:",public"`
	Exp2 []uints.U8 `gnark:",public"`
	kind string
	a    int
}

func (c *prefixWholeCircuit) Define(api frontend.API) error {
	uapi, err := uints.New[uints.U32](api)
	if err != nil {
		return err
	}
	h1, err := newBinHasher(api, c.kind, 0)
	if err != nil {
		return err
	}
	h1.Write(c.In[:c.a])
	r1 := h1.Sum()
	h2, err := newBinHasher(api, c.kind, 0)
	if err != nil {
		return err
	}
	h2.Write(c.In)
	r2 := h2.Sum()
	for i := range r1 {
		uapi.ByteAssertEq(r1[i], c.Exp1[i])
	}
	for i := range r2 {
		uapi.ByteAssertEq(r2[i], c.Exp2[i])
	}
	return nil
}

// ---- field hashers
type fieldHashCircuit struct {
	In    []frontend.Variable
	Exp   frontend.Variable `gnark:",public"`
	kind  string // mimc | poseidon2
	split int    // Sum after split elements, export / import the state, continue (mimc)
}

func (c *fieldHashCircuit) Define(api frontend.API) error {
	switch c.kind {
	case "mimc":
		h, err := mimc.NewMiMC(api)
		if err != nil {
			return err
		}
		if c.split > 0 {
			h.Write(c.In[:c.split]...)
			st := h.State()
			h2, _ := mimc.NewMiMC(api)
			if err := h2.SetState(st); err != nil {
				return err
			}
			h2.Write(c.In[c.split:]...)
			api.AssertIsEqual(h2.Sum(), c.Exp)
			return nil
		}
		h.Write(c.In...)
		api.AssertIsEqual(h.Sum(), c.Exp)
	case "poseidon2":
		h, err := poseidon2.NewMerkleDamgardHasher(api)
		if err != nil {
			return err
		}
		h.Write(c.In...)
		api.AssertIsEqual(h.Sum(), c.Exp)
	}
	return nil
}

type permCircuit struct {
	In         []frontend.Variable
	Exp        []frontend.Variable `gnark:",public"`
	t, rf, rp  int
}

func (c *permCircuit) Define(api frontend.API) error {
	p, err := posperm.NewPoseidon2FromParameters(api, c.t, c.rf, c.rp)
	if err != nil {
		return err
	}
	st := append([]frontend.Variable{}, c.In...)
	if err := p.Permutation(st); err != nil {
		return err
	}
	for i := range st {
		api.AssertIsEqual(st[i], c.Exp[i])
	}
	return nil
}

type merkleCircuit struct {
	M    merkle.MerkleProof
	Leaf frontend.Variable
}

func (c *merkleCircuit) Define(api frontend.API) error {
	h, err := mimc.NewMiMC(api)
	if err != nil {
		return err
	}
	c.M.VerifyProof(api, &h, c.Leaf)
	return nil
}

type fsCircuit struct {
	B   [3][]frontend.Variable
	Exp [3]frontend.Variable `gnark:",public"`
	// the hasher handed to the transcript is the caller's: it may be used before the first and between two challenges
	Msg     frontend.Variable
	ExpMsg  frontend.Variable `gnark:",public"`
	between int // 0: untouched; 1: written and summed between challenges; 2: written (not summed) before the first and between
}

func (c *fsCircuit) Define(api frontend.API) error {
	h, err := mimc.NewMiMC(api)
	if err != nil {
		return err
	}
	ids := []string{"alpha", "beta", "gamma"}
	ts := fsgadget.NewTranscript(api, &h, ids)
	for i, id := range ids {
		if err := ts.Bind(id, c.B[i]); err != nil {
			return err
		}
	}
	if c.between == 2 {
		h.Write(c.Msg)
	}
	for i, id := range ids {
		v, err := ts.ComputeChallenge(id)
		if err != nil {
			return err
		}
		api.AssertIsEqual(v, c.Exp[i])
		switch c.between {
		case 1:
			h.Write(c.Msg)
			api.AssertIsEqual(h.Sum(), c.ExpMsg)
			h.Reset()
			h.Write(c.Msg) // left unsummed: the transcript must start from a clean state
		case 2:
			h.Write(c.Msg, c.Msg)
		}
	}
	return nil
}

type c15Desc struct {
	Hash   string `json:"hash"`
	Mode   string `json:"mode"`
	Len    int    `json:"len"`
	MaxLen int    `json:"maxlen,omitempty"`
	Min    int    `json:"min,omitempty"`
	Chunks []int  `json:"chunks,omitempty"`
	Detail string `json:"detail,omitempty"`
}

func mimcRef(id ecc.ID) stdhash.Hash {
	switch id {
	case ecc.BN254:
		return mimc254.NewMiMC()
	case ecc.BLS12_377:
		return mimc377.NewMiMC()
	case ecc.BLS12_381:
		return mimc381.NewMiMC()
	case ecc.BLS24_315:
		return mimc315.NewMiMC()
	case ecc.BLS24_317:
		return mimc317.NewMiMC()
	case ecc.BW6_761:
		return mimc761.NewMiMC()
	case ecc.BW6_633:
		return mimc633.NewMiMC()
	}
	return nil
}

func feBytes(q *big.Int, v *big.Int) []byte {
	n := (q.BitLen() + 7) / 8
	return v.FillBytes(make([]byte, n))
}

func runC15(args []string) int {
	o := parseOpts(args)
	rng := NewRNG(o.Seed)
	rep := NewReport("C15")
	rep.Rule = "digests computed by the real gadgets in the test engine (and on compiled R1CS / SCS for a subset) against crypto/sha256, x/crypto/sha3, x/crypto/ripemd160 and gnark-crypto MiMC / Poseidon2: SHA-256 Sum for every length 0..130 and FixedLengthSum for maximum lengths {1, 55, 56, 63, 64, 65, 100, 130} x every actual length x minimal lengths; SHA3-256/384/512 and legacy Keccak-256/512 around every rate boundary and FixedLengthSum for every actual length of two maxima; RIPEMD-160 around the block boundaries; several write chunkings; wrong digests rejected; MiMC on the 7 curves (0..5 elements, state export / import), Poseidon2 hasher (bls12-377) and permutations from parameters on 7 curves, Merkle proofs and Fiat-Shamir transcripts against gnark-crypto; the executable Gallina SHA-256 (fixed and variable-length padding models, Std/Sha256.v) is evaluated on the same messages; non-trivial = every (hash, mode, length, chunking); distinct as counted"
	var shaCases, varCases []string
	msgOf := func(n int) []byte {
		b := make([]byte, n)
		for i := range b {
			b[i] = byte(rng.U64())
		}
		return b
	}
	runBin := func(kind, mode string, msg []byte, maxLen, min int, useLen bool, chunks []int, wrong bool) (string, string) {
		buf := make([]byte, maxLen)
		copy(buf, msg)
		for i := len(msg); i < maxLen; i++ {
			buf[i] = byte(0xA5 ^ i) // bytes beyond the actual length must not matter
		}
		ref := refBinHash(kind)
		ref.Write(msg)
		dg := ref.Sum(nil)
		if wrong {
			dg[len(dg)-1] ^= 1
		}
		tmpl := &binHashCircuit{In: make([]uints.U8, maxLen), Exp: make([]uints.U8, len(dg)), kind: kind, min: min, chunks: chunks, useLen: useLen}
		asg := &binHashCircuit{In: uints.NewU8Array(buf), Exp: uints.NewU8Array(dg), Len: len(msg)}
		if mode == "engine" {
			var err error
			pm := catchPanic(func() { err = test.IsSolved(tmpl, asg, bnQ) })
			if pm != "" {
				return "panic", pm
			}
			if err != nil {
				return "unsat", shortErr(err)
			}
			return "ok", ""
		}
		var ccs constraint.ConstraintSystem
		var err error
		if mode == "r1cs" {
			ccs, err = frontend.Compile(bnQ, r1cs.NewBuilder[constraint.U64], tmpl)
		} else {
			ccs, err = frontend.Compile(bnQ, scs.NewBuilder[constraint.U64], tmpl)
		}
		if err != nil {
			return "compile-error", shortErr(err)
		}
		w, err := frontend.NewWitness(asg, bnQ)
		if err != nil {
			return "witness-error", err.Error()
		}
		obs := SolveCapture(ccs, w, 8)
		return obs.Class, obs.Msg
	}
	type binJob struct {
		kind, mode  string
		msg         []byte
		maxLen, min int
		useLen      bool
		chunks      []int
		wrong       bool
		cls, m      string
	}
	var jobs []*binJob
	check := func(kind, mode string, msg []byte, maxLen, min int, useLen bool, chunks []int) {
		jobs = append(jobs, &binJob{kind: kind, mode: mode, msg: msg, maxLen: maxLen, min: min, useLen: useLen, chunks: chunks})
	}
	checkWrong := func(kind, mode string, msg []byte, maxLen int, useLen bool) {
		jobs = append(jobs, &binJob{kind: kind, mode: mode, msg: msg, maxLen: maxLen, useLen: useLen, wrong: true})
	}
	runJobs := func() {
		sem := make(chan struct{}, 14)
		var wg sync.WaitGroup
		for _, jb := range jobs {
			jb := jb
			wg.Add(1)
			sem <- struct{}{}
			go func() {
				defer wg.Done()
				defer func() { <-sem }()
				jb.cls, jb.m = runBin(jb.kind, jb.mode, jb.msg, jb.maxLen, jb.min, jb.useLen, jb.chunks, jb.wrong)
			}()
		}
		wg.Wait()
		for _, jb := range jobs {
			variant := "sum"
			if jb.useLen {
				variant = "fixedlengthsum"
			}
			desc := c15Desc{Hash: jb.kind, Mode: jb.mode, Len: len(jb.msg), MaxLen: jb.maxLen, Min: jb.min, Chunks: jb.chunks}
			if !jb.useLen {
				desc.MaxLen = 0
			}
			rep.Eval(fmt.Sprintf("%s|%s|%d|%d|%d|%v|%v|%v", jb.kind, jb.mode, len(jb.msg), jb.maxLen, jb.min, jb.useLen, jb.chunks, jb.wrong), true)
			if jb.wrong {
				rep.Count(jb.kind + ":wrong-digest:" + jb.cls)
				if jb.cls == "ok" {
					rep.Fail(fmt.Sprintf("c15:accepts-wrong-digest:%s:%s:%s", jb.kind, variant, jb.mode), "a digest differing from the reference in one bit is accepted", desc)
				}
				continue
			}
			rep.Count(jb.kind + ":" + jb.mode + ":" + jb.cls)
			if len(rep.Samples) < 5 {
				rep.Sample(desc)
			}
			if jb.cls != "ok" {
				d := desc
				d.Detail = jb.m
				rep.Fail(fmt.Sprintf("c15:digest-mismatch:%s:%s:%s", jb.kind, variant, jb.mode), fmt.Sprintf("%s %s of a %d-byte message (max %d, min %d, chunks %v) differs from the reference digest: %s %s", jb.kind, variant, len(jb.msg), jb.maxLen, jb.min, jb.chunks, jb.cls, jb.m), d)
			}
		}
	}
	// ---- SHA-256
	shaLens := []int{}
	for n := 0; n <= 130; n++ {
		if o.Thorough() || n <= 1 || (n >= 55 && n <= 57) || (n >= 63 && n <= 65) || n == 119 || n == 120 || n == 128 {
			shaLens = append(shaLens, n)
		}
	}
	for _, n := range shaLens {
		msg := msgOf(n)
		check("sha256", "engine", msg, n, 0, false, nil)
		if len(shaCases) < 40 {
			dg := sha256.Sum256(msg)
			shaCases = append(shaCases, fmt.Sprintf("(%s, %s)", nlist(msg), nlist(dg[:])))
		}
	}
	chunkings := [][]int{{1}, {10, 0, 54, 1}}
	if o.Thorough() {
		chunkings = [][]int{{0}, {1}, {31, 33}, {64}, {10, 0, 54, 1}}
	}
	for _, ch := range chunkings {
		n := 70
		msg := msgOf(n)
		check("sha256", "engine", msg, n, 0, false, ch)
	}
	maxLens := []int{1, 55, 56, 63, 64, 65, 100, 130}
	if !o.Thorough() {
		maxLens = []int{1, 56, 65, 121}
	}
	for _, maxLen := range maxLens {
		// minimal lengths at the residues that decide whether the padding spills into another block
		mins := []int{0, maxLen / 2, maxLen}
		if !o.Thorough() {
			mins = []int{0, maxLen / 2}
		}
		for _, m := range []int{55, 56, 63, 64, 119, 120} {
			if m <= maxLen {
				mins = append(mins, m)
			}
		}
		for _, min := range mins {
			for n := min; n <= maxLen; n++ {
				if !o.Thorough() && !(n == min || n == min+1 || (n >= 55 && n <= 56) || n == 64 || n == 119 || n == 120 || n == maxLen) {
					continue
				}
				msg := msgOf(n)
				check("sha256", "engine", msg, maxLen, min, true, nil)
				if len(varCases) < 45 {
					buf := make([]byte, maxLen)
					copy(buf, msg)
					for i := n; i < maxLen; i++ {
						buf[i] = byte(0xA5 ^ i)
					}
					dg := sha256.Sum256(msg)
					varCases = append(varCases, fmt.Sprintf("(%s, %d, %d, %d, %s)", nlist(buf), min, maxLen, n, nlist(dg[:])))
				}
			}
		}
	}
	// wrong digest must be rejected (engine), and a few compiled runs
	checkWrong("sha256", "engine", msgOf(60), 60, false)
	checkWrong("sha256", "engine", msgOf(60), 70, true)
	for _, mode := range []string{"r1cs", "scs"} {
		check("sha256", mode, msgOf(56), 56, 0, false, nil)
		check("sha256", mode, msgOf(60), 70, 10, true, nil)
		checkWrong("sha256", mode, msgOf(20), 20, false)
	}
	// ---- SHA-3 family
	for _, kind := range []string{"sha3-256", "sha3-384", "sha3-512", "keccak256", "keccak512"} {
		r := binRate(kind)
		lens := []int{0, 1, r - 2, r - 1, r, r + 1, 2*r - 2, 2*r - 1, 2 * r}
		if !o.Thorough() {
			lens = []int{0, r - 2, r - 1, r}
			if kind == "sha3-384" || kind == "keccak512" || kind == "sha3-512" {
				lens = []int{0, r - 1}
			}
		}
		for _, n := range lens {
			check(kind, "engine", msgOf(n), n, 0, false, nil)
		}
		check(kind, "engine", msgOf(r+5), r+5, 0, false, []int{r - 1, 3})
		// FixedLengthSum: every actual length for a maximum just above one block (thorough: two blocks)
		maxes := []int{r + 3}
		if o.Thorough() {
			maxes = []int{r + 3, 2*r + 1}
		}
		if !o.Thorough() && kind != "sha3-256" && kind != "keccak256" {
			maxes = []int{5}
		}
		for _, maxLen := range maxes {
			for _, min := range []int{0, maxLen - 3} {
				step := 1
				if !o.Thorough() && maxLen > 10 {
					step = 47
				}
				for n := min; n <= maxLen; n += step {
					check(kind, "engine", msgOf(n), maxLen, min, true, nil)
				}
				for _, n := range []int{r - 2, r - 1, r, r + 1, maxLen} {
					if n >= min && n <= maxLen {
						check(kind, "engine", msgOf(n), maxLen, min, true, nil)
					}
				}
			}
		}
		checkWrong(kind, "engine", msgOf(9), 9, false)
	}
	check("keccak256", "r1cs", msgOf(32), 32, 0, false, nil)
	// ---- RIPEMD-160
	for _, n := range []int{0, 55, 56, 64, 120} {
		check("ripemd160", "engine", msgOf(n), n, 0, false, nil)
	}
	check("ripemd160", "engine", msgOf(70), 70, 0, false, []int{5, 60})
	check("ripemd160", "scs", msgOf(20), 20, 0, false, nil)
	checkWrong("ripemd160", "engine", msgOf(9), 9, false)
	// prefix then whole message, one buffer, two hashers
	for _, kind := range []string{"sha256", "ripemd160", "sha3-256", "keccak256"} {
		for _, la := range [][2]int{{100, 20}, {64, 32}} {
			msg := msgOf(la[0])
			r1, r2 := refBinHash(kind), refBinHash(kind)
			r1.Write(msg[:la[1]])
			r2.Write(msg)
			d1, d2 := r1.Sum(nil), r2.Sum(nil)
			tmpl := &prefixWholeCircuit{In: make([]uints.U8, len(msg)), Exp1: make([]uints.U8, len(d1)), Exp2: make([]uints.U8, len(d2)), kind: kind, a: la[1]}
			asg := &prefixWholeCircuit{In: uints.NewU8Array(msg), Exp1: uints.NewU8Array(d1), Exp2: uints.NewU8Array(d2), kind: kind, a: la[1]}
			var err error
			pm := catchPanic(func() { err = test.IsSolved(tmpl, asg, bnQ) })
			rep.Eval(fmt.Sprintf("prefix-whole|%s|%d|%d", kind, la[0], la[1]), true)
			rep.Count("prefix-then-whole:" + kind)
			if pm != "" || err != nil {
				rep.Fail("c15:digest-mismatch:"+kind+":prefix-then-whole", fmt.Sprintf("%s: hashing a %d-byte prefix and then the whole %d-byte message from the same buffer with two hashers differs from the reference digests: %s %s", kind, la[1], la[0], pm, shortErr(err)),
					c15Desc{Hash: kind, Mode: "engine", Len: la[0], Detail: fmt.Sprintf("prefix %d", la[1])})
			}
		}
	}
	runJobs()
	// ---- MiMC on every curve
	for _, id := range []ecc.ID{ecc.BN254, ecc.BLS12_377, ecc.BLS12_381, ecc.BLS24_315, ecc.BLS24_317, ecc.BW6_761, ecc.BW6_633} {
		q := id.ScalarField()
		for _, n := range []int{0, 1, 2, 5} {
			for _, split := range []int{0, 1} {
				if split >= n && split > 0 {
					continue
				}
				in := make([]*big.Int, n)
				ref := mimcRef(id)
				for i := range in {
					in[i] = rng.FieldElem(q)
					ref.Write(feBytes(q, in[i]))
				}
				exp := new(big.Int).SetBytes(ref.Sum(nil))
				tmpl := &fieldHashCircuit{In: make([]frontend.Variable, n), kind: "mimc", split: split}
				asg := &fieldHashCircuit{In: make([]frontend.Variable, n), Exp: exp}
				for i := range in {
					asg.In[i] = in[i]
				}
				err := test.IsSolved(tmpl, asg, q)
				rep.Eval(fmt.Sprintf("mimc|%s|%d|%d", id, n, split), true)
				rep.Count("mimc:" + id.String())
				if err != nil {
					rep.Fail("c15:digest-mismatch:mimc:"+id.String(), fmt.Sprintf("MiMC of %d elements (state export after %d) differs from gnark-crypto: %s", n, split, shortErr(err)), c15Desc{Hash: "mimc/" + id.String(), Mode: "engine", Len: n})
				}
				if n > 0 {
					bad := &fieldHashCircuit{In: asg.In, Exp: new(big.Int).Add(exp, big.NewInt(1))}
					if test.IsSolved(tmpl, bad, q) == nil {
						rep.Fail("c15:accepts-wrong-digest:mimc:"+id.String(), "a wrong MiMC digest is accepted", nil)
					}
				}
			}
		}
	}
	// compiled MiMC on bn254
	{
		q := bnQ
		in := []*big.Int{rng.FieldElem(q), rng.FieldElem(q), rng.FieldElem(q)}
		ref := mimc254.NewMiMC()
		for _, x := range in {
			ref.Write(feBytes(q, x))
		}
		exp := new(big.Int).SetBytes(ref.Sum(nil))
		for _, r1 := range []bool{true, false} {
			tmpl := &fieldHashCircuit{In: make([]frontend.Variable, 3), kind: "mimc"}
			asg := &fieldHashCircuit{In: []frontend.Variable{in[0], in[1], in[2]}, Exp: exp}
			cls, msg := solveOn(Target{"bn254", q, r1}, tmpl, asg)
			rep.Eval(fmt.Sprint("mimc-compiled|", r1), true)
			if cls != "ok" {
				rep.Fail("c15:digest-mismatch:mimc:compiled", cls+" "+msg, nil)
			}
		}
	}
	// ---- Poseidon2
	{
		q := ecc.BLS12_377.ScalarField()
		for _, n := range []int{0, 1, 2, 3, 6} {
			in := make([]*big.Int, n)
			ref := pos377.NewMerkleDamgardHasher()
			for i := range in {
				in[i] = rng.FieldElem(q)
				ref.Write(feBytes(q, in[i]))
			}
			exp := new(big.Int).SetBytes(ref.Sum(nil))
			tmpl := &fieldHashCircuit{In: make([]frontend.Variable, n), kind: "poseidon2"}
			asg := &fieldHashCircuit{In: make([]frontend.Variable, n), Exp: exp}
			for i := range in {
				asg.In[i] = in[i]
			}
			err := test.IsSolved(tmpl, asg, q)
			rep.Eval(fmt.Sprintf("poseidon2|%d", n), true)
			if err != nil {
				rep.Fail("c15:digest-mismatch:poseidon2", fmt.Sprintf("Poseidon2 Merkle-Damgard hash of %d elements differs from gnark-crypto: %s", n, shortErr(err)), c15Desc{Hash: "poseidon2/bls12-377", Mode: "engine", Len: n})
			}
		}
		// permutation from parameters, bn254 and bls12-377 against gnark-crypto
		for _, prm := range [][3]int{{2, 6, 50}, {3, 8, 56}} {
			t, rf, rp := prm[0], prm[1], prm[2]
			for _, id := range []ecc.ID{ecc.BN254, ecc.BLS12_377} {
				qq := id.ScalarField()
				in := make([]*big.Int, t)
				for i := range in {
					in[i] = rng.FieldElem(qq)
				}
				var out []*big.Int
				if id == ecc.BN254 {
					out = poseidonPerm254(t, rf, rp, in)
				} else {
					out = poseidonPerm377(t, rf, rp, in)
				}
				tmpl := &permCircuit{In: make([]frontend.Variable, t), Exp: make([]frontend.Variable, t), t: t, rf: rf, rp: rp}
				asg := &permCircuit{In: make([]frontend.Variable, t), Exp: make([]frontend.Variable, t)}
				for i := range in {
					asg.In[i], asg.Exp[i] = in[i], out[i]
				}
				var err error
				pm := catchPanic(func() { err = test.IsSolved(tmpl, asg, qq) })
				rep.Eval(fmt.Sprintf("poseidon2-perm|%s|%d", id, t), true)
				if pm != "" || err != nil {
					rep.Fail("c15:digest-mismatch:poseidon2-permutation:"+id.String(), fmt.Sprintf("Poseidon2 permutation t=%d rf=%d rp=%d differs from gnark-crypto: %s %v", t, rf, rp, pm, err), nil)
				}
			}
		}
		_ = pos254.NewMerkleDamgardHasher
	}
	// ---- Merkle proofs (MiMC, bn254)
	{
		q := bnQ
		for _, nl := range []int{2, 4, 8} { // balanced trees: the gadget takes the leaf index as the path selector
			var buf bytes.Buffer
			for i := 0; i < nl; i++ {
				buf.Write(feBytes(q, rng.FieldElem(q)))
			}
			for _, idx := range []int{0, nl - 1, nl / 2} {
				root, path, _, err := merkletree.BuildReaderProof(bytes.NewReader(buf.Bytes()), mimc254.NewMiMC(), 32, uint64(idx))
				if err != nil {
					rep.Fail("harness:merkle", err.Error(), nil)
					continue
				}
				tmpl := &merkleCircuit{}
				tmpl.M.Path = make([]frontend.Variable, len(path))
				asg := &merkleCircuit{Leaf: idx}
				asg.M.RootHash = root
				asg.M.Path = make([]frontend.Variable, len(path))
				for i := range path {
					asg.M.Path[i] = path[i]
				}
				err = test.IsSolved(tmpl, asg, q)
				rep.Eval(fmt.Sprintf("merkle|%d|%d", nl, idx), true)
				if err != nil {
					rep.Fail("c15:merkle-rejects-valid", fmt.Sprintf("a valid Merkle proof (%d leaves, index %d) is rejected: %s", nl, idx, shortErr(err)), nil)
				}
				// wrong leaf index / altered path
				if nl > 1 {
					bad := &merkleCircuit{Leaf: (idx + 1) % nl}
					bad.M = asg.M
					if test.IsSolved(tmpl, bad, q) == nil && len(path) > 1 {
						rep.Fail("c15:merkle-accepts-wrong-index", "a Merkle proof verifies for another leaf index", nil)
					}
					alt := &merkleCircuit{Leaf: idx}
					alt.M.RootHash = root
					alt.M.Path = append([]frontend.Variable{}, asg.M.Path...)
					p0 := new(big.Int).SetBytes(path[0])
					alt.M.Path[0] = p0.Add(p0, big.NewInt(1))
					if test.IsSolved(tmpl, alt, q) == nil {
						rep.Fail("c15:merkle-accepts-altered-leaf", "a Merkle proof verifies for an altered leaf", nil)
					}
				}
			}
		}
	}
	// ---- Fiat-Shamir transcript (MiMC, bn254)
	{
		q := bnQ
		ids := []string{"alpha", "beta", "gamma"}
		ts := fiatshamir.NewTranscript(mimc254.NewMiMC(), ids...)
		var bs [3][]*big.Int
		for i, id := range ids {
			for j := 0; j < 1+i; j++ {
				v := rng.FieldElem(q)
				bs[i] = append(bs[i], v)
				ts.Bind(id, feBytes(q, v))
			}
		}
		tmpl := &fsCircuit{}
		asg := &fsCircuit{}
		for i, id := range ids {
			c, err := ts.ComputeChallenge(id)
			if err != nil {
				rep.Fail("harness:fs", err.Error(), nil)
			}
			asg.Exp[i] = new(big.Int).SetBytes(c)
			tmpl.B[i] = make([]frontend.Variable, len(bs[i]))
			asg.B[i] = make([]frontend.Variable, len(bs[i]))
			for j := range bs[i] {
				asg.B[i][j] = bs[i][j]
			}
		}
		msg := rng.FieldElem(q)
		hm := mimc254.NewMiMC()
		hm.Write(feBytes(q, msg))
		asg.Msg, asg.ExpMsg = msg, new(big.Int).SetBytes(hm.Sum(nil))
		for between := 0; between < 3; between++ {
			tmpl.between, asg.between = between, between
			err := test.IsSolved(tmpl, asg, q)
			rep.Eval(fmt.Sprintf("fiat-shamir|%d", between), true)
			if err != nil {
				rep.Fail("c15:fiat-shamir-mismatch", fmt.Sprintf("the in-circuit transcript challenges differ from gnark-crypto's (caller's use of the shared hasher: mode %d): %s", between, shortErr(err)), nil)
			}
		}
	}
	// sponge cases for the Gallina Keccak model: the same messages, reference digests from x/crypto/sha3
	var spCases, spVarCases []string
	spParams := func(kind string) (ds, rate, outlen int, ok bool) {
		switch kind {
		case "sha3-256":
			return 6, 136, 32, true
		case "sha3-384":
			return 6, 104, 48, true
		case "sha3-512":
			return 6, 72, 64, true
		case "keccak256":
			return 1, 136, 32, true
		case "keccak512":
			return 1, 72, 64, true
		}
		return 0, 0, 0, false
	}
	for _, jb := range jobs {
		ds, rate, outlen, ok := spParams(jb.kind)
		if !ok || jb.wrong || jb.mode != "engine" || len(jb.chunks) > 0 {
			continue
		}
		ref := refBinHash(jb.kind)
		ref.Write(jb.msg)
		dg := ref.Sum(nil)
		if !jb.useLen && len(spCases) < 30 {
			spCases = append(spCases, fmt.Sprintf("(%d%%N, %d, %d, %s, %s)", ds, rate, outlen, nlist(jb.msg), nlist(dg)))
		}
		if jb.useLen && len(spVarCases) < 24 {
			buf := make([]byte, jb.maxLen)
			copy(buf, jb.msg)
			for i := len(jb.msg); i < jb.maxLen; i++ {
				buf[i] = byte(0xA5 ^ i)
			}
			spVarCases = append(spVarCases, fmt.Sprintf("(%d%%N, %d, %d, %s, %d, %d, %d, %s)", ds, rate, outlen, nlist(buf), jb.min, jb.maxLen, len(jb.msg), nlist(dg)))
		}
	}
	khdr := "From Coq Require Import NArith List Bool.\nFrom GnarkV Require Import Std.Keccak Std.KeccakCases.\nImport ListNotations.\n"
	writeFile(o.Out, "cases_C15_sponge.v", khdr+fmt.Sprintf("Definition spcases : list (N * nat * nat * list N * list N) := %s.\nDefinition mism_sponge_model := Eval vm_compute in sp_mismatches 0 spcases.\nPrint mism_sponge_model.\n", coqlistNL(spCases)))
	writeFile(o.Out, "cases_C15_spongevar.v", khdr+fmt.Sprintf("Definition spvarcases : list (N * nat * nat * list N * nat * nat * nat * list N) := %s.\nDefinition mism_sponge_varlen_model := Eval vm_compute in spvar_mismatches 0 spvarcases.\nPrint mism_sponge_varlen_model.\n", coqlistNL(spVarCases)))
	hdr := "From Coq Require Import NArith List Bool.\nFrom GnarkV Require Import Std.Sha256 Std.Sha256Cases.\nImport ListNotations.\n"
	half := len(shaCases) / 2
	for i, part := range [][]string{shaCases[:half], shaCases[half:]} {
		writeFile(o.Out, fmt.Sprintf("cases_C15_sha%d.v", i), hdr+fmt.Sprintf("Definition shacases : list (list N * list N) := %s.\nDefinition mism_sha256_model_%d := Eval vm_compute in sha_mismatches 0 shacases.\nPrint mism_sha256_model_%d.\n", coqlistNL(part), i, i))
	}
	third := (len(varCases) + 2) / 3
	for i := 0; i < 3; i++ {
		lo, hi := i*third, (i+1)*third
		if hi > len(varCases) {
			hi = len(varCases)
		}
		if lo > hi {
			lo = hi
		}
		writeFile(o.Out, fmt.Sprintf("cases_C15_var%d.v", i), hdr+fmt.Sprintf("Definition varcases : list (list N * nat * nat * nat * list N) := %s.\nDefinition mism_sha256_varlen_model_%d := Eval vm_compute in var_mismatches 0 varcases.\nPrint mism_sha256_varlen_model_%d.\n", coqlistNL(varCases[lo:hi]), i, i))
	}
	rep.CoqCases = len(shaCases) + len(varCases) + len(spCases) + len(spVarCases)
	_ = strings.Join
	rep.Write(o.Out)
	return 0
}

func nlist(b []byte) string {
	ss := make([]string, len(b))
	for i, x := range b {
		ss[i] = fmt.Sprint(x)
	}
	return "[" + strings.Join(ss, "; ") + "]%N"
}
