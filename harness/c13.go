package main

// C13: range checks and lookup tables accept only in-range values and true entries; gadgets sharing
// one circuit share one commitment over all of their data.

import (
	"fmt"
	"math/big"
	"strings"

	"github.com/consensys/gnark/constraint"
	"github.com/consensys/gnark/constraint/solver"
	"github.com/consensys/gnark/frontend"
	"github.com/consensys/gnark/frontend/cs/r1cs"
	"github.com/consensys/gnark/frontend/cs/scs"
	"github.com/consensys/gnark/std/lookup/logderivlookup"
	"github.com/consensys/gnark/std/multicommit"
	"github.com/consensys/gnark/std/rangecheck"
	"github.com/consensys/gnark/test"
	"golang.org/x/crypto/sha3"
)

func init() { commands["c13"] = runC13 }

// hides every optional interface of the builder (Committer, Rangechecker): rangecheck.New falls back
// to bit decomposition
type plainAPI struct{ frontend.API }

type rcCircuit struct {
	V      []frontend.Variable
	widths []int
	plain  bool
}

func (c *rcCircuit) Define(api frontend.API) error {
	a := api
	if c.plain {
		a = plainAPI{api}
	}
	rc := rangecheck.New(a)
	for i := range c.V {
		rc.Check(c.V[i], c.widths[i])
	}
	return nil
}

type lkCircuit struct {
	Entries []frontend.Variable
	Idx     []frontend.Variable
	Exp     []frontend.Variable `gnark:",public"`
	split   int                 // number of queries in the first Lookup call (the rest in a second call)
}

func (c *lkCircuit) Define(api frontend.API) error {
	t := logderivlookup.New(api)
	for _, e := range c.Entries {
		t.Insert(e)
	}
	var res []frontend.Variable
	if c.split > 0 {
		res = append(res, t.Lookup(c.Idx[:c.split]...)...)
	}
	if c.split < len(c.Idx) {
		res = append(res, t.Lookup(c.Idx[c.split:]...)...)
	}
	for i := range res {
		api.AssertIsEqual(res[i], c.Exp[i])
	}
	if len(c.Idx) == 0 { // keep the circuit non-empty
		api.AssertIsEqual(api.Mul(c.Entries[0], 1), c.Entries[0])
	}
	return nil
}

// several gadgets sharing the circuit: custom callbacks with known variable lists + a range check + a lookup
type mcCircuit struct {
	X       []frontend.Variable
	groups  [][]int // indices of X registered by callback i
	withRC  bool
	withLK  bool
	seen    *[]*big.Int // challenges received by the custom callbacks (test engine)
	rootCmt *[]*big.Int
}

func (c *mcCircuit) Define(api frontend.API) error {
	if c.withRC {
		rc := rangecheck.New(api)
		rc.Check(c.X[0], 200)
	}
	// gadgets whose argument is built at defer time must be created before the first direct WithCommitment call:
	// the shared commitment is finalised by a deferred function registered by that first call
	var t logderivlookup.Table
	if c.withLK {
		t = logderivlookup.New(api)
		t.Insert(c.X[0])
		t.Insert(c.X[1])
	}
	for gi, g := range c.groups {
		vars := make([]frontend.Variable, len(g))
		for i, k := range g {
			vars[i] = c.X[k]
		}
		gi := gi
		multicommit.WithCommitment(api, func(api frontend.API, cmt frontend.Variable) error {
			if c.seen != nil {
				if b, ok := toBigVar(cmt); ok {
					for len(*c.seen) <= gi {
						*c.seen = append(*c.seen, nil)
					}
					(*c.seen)[gi] = b
				}
			}
			api.AssertIsDifferent(cmt, 0)
			return nil
		}, vars...)
	}
	if t != nil {
		r := t.Lookup(0)
		api.AssertIsEqual(r[0], c.X[0])
	}
	return nil
}

// a gadget that creates its range checker first and issues its checks only from deferred callbacks registered
// afterwards (constructor-style use): every such check must either be enforced or refused at compile time
type lateRcCircuit struct {
	X     frontend.Variable
	width int
	early bool // one check issued directly in Define as well
}

func (c *lateRcCircuit) Define(api frontend.API) error {
	rc := rangecheck.New(api)
	if c.early {
		rc.Check(api.Add(c.X, 0), 64)
	}
	api.Compiler().Defer(func(api frontend.API) error {
		rc.Check(c.X, c.width)
		return nil
	})
	return nil
}

type c13Desc struct {
	Kind   string      `json:"kind"`
	Mode   string      `json:"mode"`
	Widths []int       `json:"widths,omitempty"`
	Values []*big.Int  `json:"values,omitempty"`
	Table  int         `json:"table,omitempty"`
	Idx    []int       `json:"idx,omitempty"`
	Detail string      `json:"detail,omitempty"`
	Extra  interface{} `json:"extra,omitempty"`
}

func c13Compile(mode string, c frontend.Circuit) (constraint.ConstraintSystem, error) {
	if strings.HasPrefix(mode, "r1cs") {
		return frontend.Compile(bnQ, r1cs.NewBuilder[constraint.U64], c)
	}
	return frontend.Compile(bnQ, scs.NewBuilder[constraint.U64], c)
}

func pow2(n int) *big.Int { return new(big.Int).Lsh(big.NewInt(1), uint(n)) }

type mixedTableCircuit struct {
	R   frontend.Variable `gnark:",public"`
	E   []frontend.Variable
	I   frontend.Variable
	R2  frontend.Variable // result of the lookup at I + 1 (patterns with shifted entries)
	pat string
}

func (c *mixedTableCircuit) Define(api frontend.API) error {
	t := logderivlookup.New(api)
	k := 0
	for _, ch := range c.pat {
		switch ch {
		case 'v':
			t.Insert(c.E[k])
			k++
		case 's': // a witness entry shifted by a constant: the committed expression starts with the constant wire
			t.Insert(api.Add(c.E[k], 3))
			k++
		default:
			t.Insert(7)
		}
	}
	if strings.Contains(c.pat, "s") {
		api.AssertIsEqual(t.Lookup(api.Sub(api.Add(c.I, 1), 1))[0], c.R)
		api.AssertIsEqual(t.Lookup(api.Add(c.I, 1))[0], c.R2)
		return nil
	}
	api.AssertIsEqual(t.Lookup(c.I)[0], c.R)
	return nil
}

func runC13(args []string) int {
	o := parseOpts(args)
	rng := NewRNG(o.Seed)
	rep := NewReport("C13")
	rep.Rule = "range checks: circuits checking 1..4 variables with widths from {1..20, 31..33, 63..65, 127, 128, 200, 252..256, 300} (mixes change the chosen limb width) on R1CS and SCS with the commitment-based checker, on both with the commitment hidden (bit decomposition) and in the test engine; values 0, 1, 2^n-1, 2^n, 2^n+1, r-1, random inside / outside: solved iff every value is below 2^n; every DecomposeHint call and the table size of the argument are compared with the Gallina decomposition / width selection; adversary: forged limbs (digits of 2^n, borrowed limbs), forged multiplicities, with the commitment replaced by a hash of the committed values; lookups: tables of 1..33 witness entries, repeated / zero / split queries: results equal entries, an out-of-range index is rejected; multicommit: 1..4 custom gadgets + range check + lookup in one circuit: one commitment, over the concatenation of all registered variables (recomputed from the test engine's commitment function), callback i receives root^(i+1), any registered value changes the root; non-trivial = every (circuit, mode, assignment); distinct as counted"
	var decCases, widthCases, accCases, qryCases []string
	decompID := solver.GetHintID(rangecheck.DecomposeHint)
	var countID solver.HintID
	var countFn solver.Hint
	for _, id := range []string{"countHint"} {
		for _, h := range solver.GetRegisteredHints() {
			if strings.HasSuffix(solver.GetHintName(h), "logderivarg."+id) {
				countID, countFn = solver.GetHintID(h), h
			}
		}
	}
	if countFn == nil {
		rep.Fail("harness:hints", "countHint not found", nil)
	}
	allWidths := []int{1, 2, 3, 4, 5, 6, 7, 8, 9, 10, 11, 12, 13, 14, 15, 16, 17, 18, 19, 20, 31, 32, 33, 63, 64, 65, 127, 128, 200, 252, 253, 254, 255, 256, 300}
	valueFor := func(n int, kind int) (*big.Int, string) {
		p := pow2(n)
		switch kind {
		case 0:
			return big.NewInt(0), "0"
		case 1:
			return big.NewInt(1), "1"
		case 2:
			return new(big.Int).Mod(new(big.Int).Sub(p, big.NewInt(1)), bnQ), "2^n-1"
		case 3:
			return new(big.Int).Mod(p, bnQ), "2^n"
		case 4:
			return new(big.Int).Mod(new(big.Int).Add(p, big.NewInt(1)), bnQ), "2^n+1"
		case 5:
			return new(big.Int).Sub(bnQ, big.NewInt(1)), "r-1"
		case 6:
			if p.Cmp(bnQ) < 0 {
				return rng.Big(p), "inside"
			}
			return rng.Big(bnQ), "inside"
		default:
			if p.Cmp(bnQ) < 0 {
				v := rng.Big(new(big.Int).Sub(bnQ, p))
				return v.Add(v, p), "outside"
			}
			return rng.Big(bnQ), "inside"
		}
	}
	inRange := func(v *big.Int, n int) bool { return v.Cmp(pow2(n)) < 0 }
	ncirc := 10
	if o.Thorough() {
		ncirc = 80
	}
	compiled := map[string]constraint.ConstraintSystem{}
	for ci := 0; ci < ncirc; ci++ {
		k := 1 + rng.Intn(4)
		widths := make([]int, k)
		for i := range widths {
			if ci < len(allWidths) && i == 0 {
				widths[i] = allWidths[(ci*7+int(o.Seed))%len(allWidths)]
			} else {
				widths[i] = allWidths[rng.Intn(len(allWidths))]
			}
		}
		for _, mode := range []string{"r1cs", "scs", "r1cs-plain", "scs-plain", "engine"} {
			key := fmt.Sprint(mode, widths)
			tmpl := &rcCircuit{V: make([]frontend.Variable, k), widths: widths, plain: strings.HasSuffix(mode, "-plain")}
			var ccs constraint.ConstraintSystem
			if mode != "engine" {
				var err error
				if ccs = compiled[key]; ccs == nil {
					pm := catchPanic(func() { ccs, err = c13Compile(mode, tmpl) })
					if pm != "" || err != nil {
						rep.Fail("c13:compile:"+mode, fmt.Sprint("range-check circuit does not compile: ", pm, err), c13Desc{Kind: "rangecheck", Mode: mode, Widths: widths})
						continue
					}
					compiled[key] = ccs
				}
			}
			nassign := 4
			for ai := 0; ai < nassign; ai++ {
				vals := make([]*big.Int, k)
				want := true
				var pats []string
				for i := range vals {
					kind := rng.Intn(8)
					if ai == 0 {
						kind = []int{2, 6, 0, 1}[i%4] // first assignment valid
					}
					var pat string
					vals[i], pat = valueFor(widths[i], kind)
					pats = append(pats, pat)
					if !inRange(vals[i], widths[i]) {
						want = false
					}
				}
				asg := &rcCircuit{V: make([]frontend.Variable, k), widths: widths}
				for i := range vals {
					asg.V[i] = vals[i]
				}
				desc := c13Desc{Kind: "rangecheck", Mode: mode, Widths: widths, Values: vals}
				rep.Eval(fmt.Sprint("rc|", mode, widths, vals), true)
				rep.Sample(desc)
				for _, p := range pats {
					rep.Count("rc-value:" + p)
				}
				var cls, msg string
				var obs *SolveObs
				if mode == "engine" {
					var err error
					pm := catchPanic(func() { err = test.IsSolved(tmpl, asg, bnQ) })
					switch {
					case pm != "":
						cls, msg = "panic", pm
					case err != nil:
						cls, msg = "unsat", shortErr(err)
					default:
						cls = "ok"
					}
				} else {
					w, err := frontend.NewWitness(asg, bnQ)
					if err != nil {
						rep.Fail("harness:witness", err.Error(), desc)
						continue
					}
					obs = SolveCapture(ccs, w, 1)
					cls, msg = obs.Class, obs.Msg
				}
				rep.Count("rc:" + mode + ":" + cls)
				if cls == "panic" {
					rep.Fail("c13:panic:rangecheck:"+mode, msg, desc)
					continue
				}
				if want && cls != "ok" {
					d := desc
					d.Detail = msg
					rep.Fail("c13:rejects-in-range:"+mode, "a range check fails although every value is below 2^n: "+msg, d)
				}
				if !want && cls == "ok" {
					rep.Fail("c13:accepts-out-of-range:"+mode, "a range check is satisfied by a value >= 2^n", desc)
				}
				// hint observations for the Gallina tie (commitment-based checker, valid assignments)
				if obs != nil && cls == "ok" && !strings.HasSuffix(mode, "-plain") {
					base := 0
					for _, hc := range obs.Hints {
						if solver.HintID(hc.ID) == decompID {
							base = int(hc.In[1].Int64())
						}
						if solver.HintID(hc.ID) == decompID && len(decCases) < 250 {
							decCases = append(decCases, fmt.Sprintf("(%d%%Z, %d%%Z, %s, %s)", hc.In[0].Int64(), hc.In[1].Int64(), zlit(hc.In[2]), zlist(hc.Out)))
							if len(accCases) < 250 {
								accCases = append(accCases, fmt.Sprintf("(%d%%Z, %d%%Z, %s, %s)", hc.In[1].Int64(), hc.In[0].Int64(), zlist(hc.Out), zlit(hc.In[2])))
							}
						}
						if solver.HintID(hc.ID) == countID {
							nbT := int(hc.In[0].Int64())
							if len(qryCases) < 150 {
								ws := make([]*big.Int, len(widths))
								for i, w := range widths {
									ws[i] = big.NewInt(int64(w))
								}
								qryCases = append(qryCases, fmt.Sprintf("(%d%%Z, %s, %s, %s)", base, zlist(ws), zlist(vals), zlist(hc.In[2+nbT:])))
							}
							if int(hc.In[0].Int64()) != 1<<uint(base) {
								d := desc
								d.Detail = fmt.Sprintf("table size %d, limb width %d", nbT, base)
								rep.Fail("c13:table-size", "the table of the range-check argument is not 0..2^b-1 for the limb width used by the decomposition", d)
							}
						}
					}
					if base > 0 && len(widthCases) < 120 {
						kind := 0
						if mode == "scs" {
							kind = 1
						}
						ws := make([]*big.Int, len(widths))
						for i, w := range widths {
							ws[i] = big.NewInt(int64(w))
						}
						widthCases = append(widthCases, fmt.Sprintf("(%d, %s, %d%%Z)", kind, zlist(ws), base))
					}
				}
			}
		}
	}
	// ---- widths narrower than the chosen limb width: many wide checks raise the limb width, one narrow check
	for _, narrow := range []int{1, 2, 3, 5, 7} {
		for _, nwide := range []int{40, 200} {
			widths := make([]int, nwide+1)
			for i := range widths {
				widths[i] = 64
			}
			widths[nwide] = narrow
			for _, mode := range []string{"r1cs", "scs", "engine"} {
				tmpl := &rcCircuit{V: make([]frontend.Variable, len(widths)), widths: widths}
				var ccs constraint.ConstraintSystem
				if mode != "engine" {
					var err error
					if ccs, err = c13Compile(mode, tmpl); err != nil {
						continue
					}
				}
				for _, vk := range []int64{0, 1, int64(1)<<uint(narrow) - 1, int64(1) << uint(narrow), int64(1)<<uint(narrow) + 1, 255, 1023} {
					asg := &rcCircuit{V: make([]frontend.Variable, len(widths)), widths: widths}
					for i := 0; i < nwide; i++ {
						asg.V[i] = rng.U64()
					}
					asg.V[nwide] = vk
					want := vk < int64(1)<<uint(narrow)
					var cls string
					if mode == "engine" {
						var err error
						pm := catchPanic(func() { err = test.IsSolved(tmpl, asg, bnQ) })
						cls = "ok"
						if pm != "" || err != nil {
							cls = "unsat"
						}
					} else {
						w, _ := frontend.NewWitness(asg, bnQ)
						cls = SolveCapture(ccs, w, 1).Class
					}
					rep.Eval(fmt.Sprint("rc-narrow|", mode, narrow, nwide, vk), true)
					rep.Count("rc-narrow:" + cls)
					desc := c13Desc{Kind: "rangecheck", Mode: mode, Detail: fmt.Sprintf("%d checks of 64 bits and one of %d bits; value %d", nwide, narrow, vk)}
					if want && cls != "ok" {
						rep.Fail("c13:rejects-in-range:"+mode, "a narrow range check inside a wide mix rejects an in-range value", desc)
					}
					if !want && cls == "ok" {
						rep.Fail("c13:accepts-out-of-range:"+mode, "a range check narrower than the chosen limb width is satisfied by a value >= 2^n", desc)
					}
				}
			}
		}
	}
	// ---- adversary on the commitment-based checker
	type forge struct {
		name string
		n    int
		v    *big.Int
		// limbs(b, k) returns the forged limb values
		limbs func(b, k int, v *big.Int) []*big.Int
	}
	digits := func(b, k int, v *big.Int) []*big.Int { return decompLimbs(v, uint(b), k) }
	forges := []forge{
		{"digits-of-2^n", 5, pow2(5), digits},
		{"digits-of-2^n", 13, pow2(13), digits},
		{"digits-of-2^n+1", 21, new(big.Int).Add(pow2(21), big.NewInt(1)), digits},
		{"digits-of-2^n", 64, pow2(64), func(b, k int, v *big.Int) []*big.Int { // one more bit in the top limb
			l := decompLimbs(new(big.Int).Sub(v, pow2(64)), uint(b), k)
			l[k-1].Add(l[k-1], pow2(64-b*(k-1)))
			return l
		}},
		{"borrowed-limb", 16, new(big.Int).Add(pow2(16), big.NewInt(5)), func(b, k int, v *big.Int) []*big.Int { // top limb too large, value recomposes
			l := decompLimbs(new(big.Int).Mod(v, pow2(b*(k-1))), uint(b), k)
			l[k-1] = new(big.Int).Rsh(v, uint(b*(k-1)))
			return l
		}},
		{"negative-limb", 12, new(big.Int).Sub(bnQ, big.NewInt(3)), func(b, k int, v *big.Int) []*big.Int { // -3 as limbs (r-3, 0, ...)
			l := make([]*big.Int, k)
			for i := range l {
				l[i] = new(big.Int)
			}
			l[0] = new(big.Int).Set(v)
			return l
		}},
	}
	for _, fg := range forges {
		for _, mode := range []string{"r1cs", "scs"} {
			widths := []int{fg.n, 9}
			tmpl := &rcCircuit{V: make([]frontend.Variable, 2), widths: widths}
			ccs, err := c13Compile(mode, tmpl)
			if err != nil {
				continue
			}
			asg := &rcCircuit{V: []frontend.Variable{fg.v, 7}, widths: widths}
			w, _ := frontend.NewWitness(asg, bnQ)
			forgedDecomp := func(q *big.Int, in, out []*big.Int) error {
				if err := rangecheck.DecomposeHint(q, in, out); err != nil {
					return err
				}
				if in[2].Cmp(fg.v) == 0 {
					l := fg.limbs(int(in[1].Int64()), len(out), in[2])
					for i := range out {
						out[i].Set(l[i])
					}
				}
				return nil
			}
			for _, cmode := range []string{"honest-counts", "lenient-counts"} {
				forgedCount := func(q *big.Int, in, out []*big.Int) error {
					if err := countFn(q, in, out); err == nil || cmode == "honest-counts" {
						return err
					}
					// count what is in the table, ignore the rest (the prover's best effort)
					nbTable := int(in[0].Int64())
					for i := range out {
						out[i].SetInt64(0)
					}
					for _, x := range in[2+nbTable:] {
						if x.IsInt64() && x.Int64() >= 0 && x.Int64() < int64(nbTable) {
							out[x.Int64()].Add(out[x.Int64()], big.NewInt(1))
						}
					}
					return nil
				}
				obs := SolveCapture(ccs, w, 1, solver.OverrideHint(decompID, forgedDecomp), solver.OverrideHint(countID, forgedCount))
				rep.Eval(fmt.Sprint("rc-forge|", fg.name, fg.n, mode, cmode), true)
				rep.Count("rc-forge:" + fg.name + ":" + obs.Class)
				if obs.Class == "ok" {
					rep.Fail("c13:forged-accepted:rangecheck:"+fg.name+":"+mode, "forged limbs make the range check accept a value >= 2^n", c13Desc{Kind: "rangecheck-forge", Mode: mode, Widths: widths, Values: []*big.Int{fg.v}, Detail: fg.name + " " + cmode})
				}
				if obs.Class == "panic" {
					rep.Fail("c13:panic:rangecheck-forge", obs.Msg, c13Desc{Kind: "rangecheck-forge", Mode: mode, Widths: widths, Detail: fg.name})
				}
			}
		}
	}
	// ---- adversary: a narrow check among wide ones (single limb, limb width b > n); the witness value is V = x / 2^(b-n)
	// in the FIELD for a small x, and the decomposition hint answers with V itself: its shifted image V * 2^(b-n) = x is in
	// the table, V is not
	for _, mode := range []string{"r1cs", "scs"} {
		widths := []int{3}
		for i := 0; i < 40; i++ {
			widths = append(widths, 64)
		}
		tmpl := &rcCircuit{V: make([]frontend.Variable, len(widths)), widths: widths}
		ccs, err := c13Compile(mode, tmpl)
		if err != nil {
			continue
		}
		vals := make([]frontend.Variable, len(widths))
		for i := range vals {
			vals[i] = 5
		}
		// first pass: learn the limb width from the honest hint calls
		base := 0
		learn := func(q *big.Int, in, out []*big.Int) error {
			base = int(in[1].Int64())
			return rangecheck.DecomposeHint(q, in, out)
		}
		w0, _ := frontend.NewWitness(&rcCircuit{V: vals, widths: widths}, bnQ)
		SolveCapture(ccs, w0, 1, solver.OverrideHint(decompID, learn))
		if base <= 3 {
			rep.Count("rc-forge:field-division:not-applicable")
			continue
		}
		inv := new(big.Int).ModInverse(pow2(base-3), bnQ)
		V := new(big.Int).Mul(big.NewInt(5), inv)
		V.Mod(V, bnQ)
		vals[0] = V
		w, _ := frontend.NewWitness(&rcCircuit{V: vals, widths: widths}, bnQ)
		forgedDecomp := func(q *big.Int, in, out []*big.Int) error {
			if in[2].Cmp(V) == 0 {
				for i := range out {
					out[i].SetInt64(0)
				}
				out[0].Set(V)
				return nil
			}
			return rangecheck.DecomposeHint(q, in, out)
		}
		lenient := func(q *big.Int, in, out []*big.Int) error {
			nbTable := int(in[0].Int64())
			for i := range out {
				out[i].SetInt64(0)
			}
			for _, x := range in[2+nbTable:] {
				if x.IsInt64() && x.Int64() >= 0 && x.Int64() < int64(nbTable) {
					out[x.Int64()].Add(out[x.Int64()], big.NewInt(1))
				}
			}
			return nil
		}
		obs := SolveCapture(ccs, w, 1, solver.OverrideHint(decompID, forgedDecomp), solver.OverrideHint(countID, lenient))
		rep.Eval("rc-forge|field-division|"+mode, true)
		rep.Count("rc-forge:field-division:" + obs.Class)
		if obs.Class == "ok" {
			rep.Fail("c13:forged-accepted:rangecheck:field-division:"+mode, fmt.Sprintf("a 3-bit check (limb width %d) accepts V = 5 / 2^%d mod r with the limb V itself: only its shifted image is looked up", base, base-3),
				c13Desc{Kind: "rangecheck-forge", Mode: mode, Widths: widths[:2], Values: []*big.Int{V}, Detail: "field-division"})
		}
	}
	// ---- lookups
	sizes := []int{1, 2, 3, 7, 8, 9, 33}
	if o.Thorough() {
		sizes = nil
		for s := 1; s <= 33; s++ {
			sizes = append(sizes, s)
		}
	}
	for _, s := range sizes {
		for _, nq := range []int{0, 1, 2, 5} {
			for _, mode := range []string{"r1cs", "scs", "engine"} {
				split := 0
				if nq > 1 {
					split = 1 + rng.Intn(nq-1)
				} else {
					split = nq
				}
				tmpl := &lkCircuit{Entries: make([]frontend.Variable, s), Idx: make([]frontend.Variable, nq), Exp: make([]frontend.Variable, nq), split: split}
				var ccs constraint.ConstraintSystem
				if mode != "engine" {
					var err error
					pm := catchPanic(func() { ccs, err = c13Compile(mode, tmpl) })
					if pm != "" || err != nil {
						rep.Fail("c13:compile:lookup:"+mode, fmt.Sprint("lookup circuit does not compile: ", pm, err), c13Desc{Kind: "lookup", Mode: mode, Table: s, Detail: fmt.Sprint("queries=", nq)})
						continue
					}
				}
				entries := make([]*big.Int, s)
				for i := range entries {
					entries[i] = rng.FieldElem(bnQ)
				}
				for _, variant := range []string{"valid", "repeated", "wrong-result", "index=size", "index=size+7", "index=r-1"} {
					if nq == 0 && variant != "valid" {
						continue
					}
					idx := make([]*big.Int, nq)
					exp := make([]*big.Int, nq)
					for i := range idx {
						j := rng.Intn(s)
						if variant == "repeated" {
							j = 0
						}
						idx[i] = big.NewInt(int64(j))
						exp[i] = entries[j]
					}
					want := true
					switch variant {
					case "wrong-result":
						exp[nq-1] = addq(exp[nq-1], big.NewInt(1))
						want = false
					case "index=size":
						idx[0] = big.NewInt(int64(s))
						exp[0] = big.NewInt(0)
						want = false
					case "index=size+7":
						idx[0] = big.NewInt(int64(s + 7))
						exp[0] = entries[0]
						want = false
					case "index=r-1":
						idx[0] = new(big.Int).Sub(bnQ, big.NewInt(1))
						exp[0] = entries[s-1]
						want = false
					}
					asg := &lkCircuit{Entries: make([]frontend.Variable, s), Idx: make([]frontend.Variable, nq), Exp: make([]frontend.Variable, nq)}
					for i := range entries {
						asg.Entries[i] = entries[i]
					}
					ii := make([]int, nq)
					for i := range idx {
						asg.Idx[i], asg.Exp[i] = idx[i], exp[i]
						if idx[i].IsInt64() {
							ii[i] = int(idx[i].Int64())
						} else {
							ii[i] = -1
						}
					}
					desc := c13Desc{Kind: "lookup", Mode: mode, Table: s, Idx: ii, Detail: variant}
					var cls, msg string
					if mode == "engine" {
						var err error
						pm := catchPanic(func() { err = test.IsSolved(tmpl, asg, bnQ) })
						switch {
						case pm != "":
							cls, msg = "panic", pm
						case err != nil:
							cls, msg = "unsat", shortErr(err)
						default:
							cls = "ok"
						}
					} else {
						w, err := frontend.NewWitness(asg, bnQ)
						if err != nil {
							continue
						}
						obs := SolveCapture(ccs, w, 1)
						cls, msg = obs.Class, obs.Msg
						if cls == "ok" && nq > 0 {
							// the argument must cover every looked-up (index, value) pair of every Lookup call
							for _, hc := range obs.Hints {
								if solver.HintID(hc.ID) == countID && hc.In[1].Int64() == 2 {
									nbT := int(hc.In[0].Int64())
									rows := (len(hc.In) - 2 - 2*nbT) / 2
									if nbT != s || rows != nq {
										rep.Fail("c13:lookup-argument-rows:"+mode, fmt.Sprintf("the log-derivative argument of a table with %d entries and %d lookups is built over %d entries and %d query rows", s, nq, nbT, rows), desc)
									}
								}
							}
						}
					}
					rep.Eval(fmt.Sprint("lk|", mode, s, nq, variant), true)
					rep.Count("lookup:" + variant + ":" + cls)
					if cls == "panic" && mode != "engine" {
						rep.Fail("c13:panic:lookup:"+mode, msg, desc)
					} else if want && cls != "ok" {
						d := desc
						d.Detail += ": " + msg
						rep.Fail("c13:lookup-rejects-valid:"+mode, "a lookup with in-range indices and the stored entries as results fails: "+msg, d)
					} else if !want && cls == "ok" {
						rep.Fail("c13:lookup-accepts:"+variant+":"+mode, "a lookup accepts "+variant, desc)
					}
				}
			}
		}
	}
	// ---- dishonest prover on lookups: the table blueprint is wrapped and returns a forged entry for the single-index
	// Lookup call of a circuit with two Lookup calls on one table
	for _, mode := range []string{"r1cs", "scs"} {
		for _, firstForged := range []bool{true, false} {
			s, nq := 4, 3
			split := 1
			if !firstForged {
				split = 2 // the single-index call is the second one
			}
			tmpl := &lkCircuit{Entries: make([]frontend.Variable, s), Idx: make([]frontend.Variable, nq), Exp: make([]frontend.Variable, nq), split: split}
			ccs, err := c13Compile(mode, tmpl)
			if err != nil {
				continue
			}
			sys := sysOf(ccs)
			wrapped := 0
			for i, bp := range sys.Blueprints {
				if lb, ok := bp.(*constraint.BlueprintLookupHint[constraint.U64]); ok {
					sys.Blueprints[i] = &forgedLookup{BlueprintLookupHint: lb}
					wrapped++
				}
			}
			if wrapped == 0 {
				rep.Fail("harness:lookup-blueprint", "lookup blueprint not found", nil)
				continue
			}
			entries := []*big.Int{big.NewInt(10), big.NewInt(20), big.NewInt(30), big.NewInt(40)}
			idx := []int{1, 2, 3}
			asg := &lkCircuit{Entries: make([]frontend.Variable, s), Idx: make([]frontend.Variable, nq), Exp: make([]frontend.Variable, nq)}
			for i := range entries {
				asg.Entries[i] = entries[i]
			}
			forgedPos := 0
			if !firstForged {
				forgedPos = 2
			}
			for i, j := range idx {
				asg.Idx[i] = j
				asg.Exp[i] = entries[j]
				if i == forgedPos {
					asg.Exp[i] = new(big.Int).Add(entries[j], big.NewInt(1)) // the forged value the blueprint returns
				}
			}
			w, _ := frontend.NewWitness(asg, bnQ)
			for _, cmode := range []string{"honest-counts", "lenient-counts"} {
				forgedCount := func(q *big.Int, in, out []*big.Int) error {
					if err := countFn(q, in, out); err == nil || cmode == "honest-counts" {
						return err
					}
					for i := range out {
						out[i].SetInt64(0)
					}
					return nil
				}
				obs := SolveCapture(ccs, w, 1, solver.OverrideHint(countID, forgedCount))
				rep.Eval(fmt.Sprint("lk-forged|", mode, firstForged, cmode), true)
				rep.Count("lookup-forged:" + obs.Class)
				if obs.Class == "ok" {
					which := "first"
					if !firstForged {
						which = "last"
					}
					rep.Fail("c13:forged-accepted:lookup:"+which+"-call:"+mode, "a lookup result forged by the prover (entry + 1) in the "+which+" of two Lookup calls is accepted", c13Desc{Kind: "lookup-forge", Mode: mode, Table: s, Idx: idx, Detail: which + " call forged, " + cmode})
				}
			}
		}
	}
	// ---- multicommit
	for _, ng := range []int{1, 2, 3, 4} {
		for _, extra := range []string{"", "rc", "lk", "rc+lk"} {
			nx := 6
			groups := make([][]int, ng)
			for g := range groups {
				m := 1 + rng.Intn(3)
				for j := 0; j < m; j++ {
					groups[g] = append(groups[g], rng.Intn(nx))
				}
			}
			mk := func(seen *[]*big.Int) *mcCircuit {
				return &mcCircuit{X: make([]frontend.Variable, nx), groups: groups, withRC: strings.Contains(extra, "rc"), withLK: strings.Contains(extra, "lk"), seen: seen}
			}
			xs := make([]*big.Int, nx)
			for i := range xs {
				xs[i] = big.NewInt(int64(10 + i + rng.Intn(1000)))
			}
			assign := func(vals []*big.Int) *mcCircuit {
				a := mk(nil)
				for i := range vals {
					a.X[i] = vals[i]
				}
				return a
			}
			desc := c13Desc{Kind: "multicommit", Detail: fmt.Sprint("gadgets=", ng, " extra=", extra), Extra: groups}
			// test engine: challenges handed to the callbacks
			var seen []*big.Int
			if err := test.IsSolved(mk(&seen), assign(xs), bnQ); err != nil {
				rep.Fail("c13:multicommit-engine-fails", shortErr(err), desc)
				continue
			}
			rep.Eval(fmt.Sprint("mc|", ng, extra), true)
			if len(seen) != ng {
				rep.Fail("c13:multicommit-callbacks", "not every registered callback was called", desc)
				continue
			}
			// which callback index does each custom gadget have? range check / lookup callbacks are registered at
			// defer time, after the custom ones: custom gadget i is callback i.  root = seen[0]; seen[i] = root^(i+1)
			root := seen[0]
			okPow := true
			acc := new(big.Int).Set(root)
			for i := 1; i < ng; i++ {
				acc = mulq(acc, root)
				if seen[i].Cmp(acc) != 0 {
					okPow = false
				}
			}
			if !okPow {
				rep.Fail("c13:multicommit-challenges", "callback i does not receive root^(i+1)", desc)
			}
			// the root is the engine's commitment function of the concatenation of all registered variables, in order
			if extra == "" {
				h := sha3.NewCShake128(nil, []byte("gnark test engine"))
				buf := make([]byte, 32)
				for _, g := range groups {
					for _, k := range g {
						h.Write(xs[k].FillBytes(buf))
					}
				}
				h.Read(buf)
				want := new(big.Int).SetBytes(buf)
				want.Mod(want, bnQ)
				rep.Eval(fmt.Sprint("mc-root|", ng), true)
				if want.Cmp(root) != 0 {
					rep.Fail("c13:multicommit-root", "the single commitment is not taken over the concatenation of all registered variables in registration order", desc)
				}
			}
			// every registered variable influences the root
			regd := map[int]bool{}
			for _, g := range groups {
				for _, k := range g {
					regd[k] = true
				}
			}
			for k := 0; k < nx; k++ {
				if !regd[k] || (k <= 1 && extra != "") {
					continue
				}
				ys := append([]*big.Int{}, xs...)
				ys[k] = new(big.Int).Add(xs[k], big.NewInt(1))
				var seen2 []*big.Int
				if err := test.IsSolved(mk(&seen2), assign(ys), bnQ); err != nil || len(seen2) == 0 {
					continue
				}
				rep.Eval(fmt.Sprint("mc-dep|", ng, extra, k), true)
				if seen2[0].Cmp(root) == 0 {
					rep.Fail("c13:multicommit-independent", fmt.Sprintf("changing registered variable X[%d] does not change the shared commitment", k), desc)
				}
			}
			// compiled: one commitment only, and it covers the registered inputs
			for _, mode := range []string{"r1cs", "scs"} {
				ccs, err := c13Compile(mode, mk(nil))
				if err != nil {
					rep.Fail("c13:compile:multicommit:"+mode, err.Error(), desc)
					continue
				}
				nbc := 0
				var committedWires map[int]bool
				switch ci := sysOf(ccs).CommitmentInfo.(type) {
				case constraint.Groth16Commitments:
					nbc = len(ci)
					committedWires = map[int]bool{}
					for _, c := range ci {
						for _, w := range c.PrivateCommitted {
							committedWires[w] = true
						}
						for _, w := range c.PublicAndCommitmentCommitted {
							committedWires[w] = true
						}
					}
				case constraint.PlonkCommitments:
					nbc = len(ci)
				}
				rep.Eval(fmt.Sprint("mc-compiled|", ng, extra, mode), true)
				if nbc != 1 {
					rep.Fail("c13:multicommit-count:"+mode, fmt.Sprintf("%d commitments for gadgets sharing one circuit (expected exactly one)", nbc), desc)
				}
				if committedWires != nil {
					// secret inputs X[k] are wires 1 + k (no public inputs, wire 0 is the constant)
					for k := range regd {
						if !committedWires[1+k] {
							rep.Fail("c13:multicommit-missing-wire:"+mode, fmt.Sprintf("registered variable X[%d] is not among the committed wires", k), desc)
						}
					}
				}
				w, _ := frontend.NewWitness(assign(xs), bnQ)
				if obs := SolveCapture(ccs, w, 1); obs.Class != "ok" {
					rep.Fail("c13:multicommit-solve:"+mode, obs.Class+" "+obs.Msg, desc)
				}
			}
		}
	}
	// ---- lookup tables mixing witness entries and constants: every witness entry must be among the committed wires (the
	// challenge of the log-derivative argument must depend on the table the prover chose), wherever the constants sit
	for _, pat := range []string{"vvv", "vvc", "cvv", "vcv", "vcc", "ccv", "vvvvc", "cvcvc", "svs", "ssc", "csv"} {
		nv := strings.Count(pat, "v") + strings.Count(pat, "s")
		mk := func() *mixedTableCircuit { return &mixedTableCircuit{E: make([]frontend.Variable, nv), pat: pat} }
		desc := c13Desc{Kind: "lookup-mixed-table", Detail: "entries (v = witness, c = constant): " + pat}
		ccs, err := c13Compile("r1cs", mk())
		rep.Eval("mixed-table|"+pat, true)
		if err != nil {
			rep.Fail("c13:compile:mixed-table", err.Error(), desc)
			continue
		}
		committed := map[int]bool{}
		if ci, ok := sysOf(ccs).CommitmentInfo.(constraint.Groth16Commitments); ok {
			for _, c := range ci {
				for _, w := range c.PrivateCommitted {
					committed[w] = true
				}
				for _, w := range c.PublicAndCommitmentCommitted {
					committed[w] = true
				}
			}
		}
		// wire 0: constant, wire 1: public R, wires 2..: E[k], then I
		if strings.Contains(pat, "s") && !committed[2+nv] {
			rep.Fail("c13:lookup-index-not-committed", "the wire of a lookup index used as I + 1 is not among the committed wires (entries "+pat+")", desc)
		}
		for k := 0; k < nv; k++ {
			if !committed[2+k] {
				rep.Fail("c13:lookup-table-entry-not-committed", fmt.Sprintf("witness entry E[%d] of a lookup table with entries %s is not among the committed wires: the challenge does not depend on it", k, pat), desc)
			}
		}
		a := mk()
		for k := range a.E {
			a.E[k] = 100 + k
		}
		a.I, a.R, a.R2 = 0, 100, 0
		val := func(pos int) int { // value of table entry pos
			k := 0
			for i, ch := range pat {
				v := 7
				if ch == 'v' {
					v = 100 + k
					k++
				} else if ch == 's' {
					v = 100 + k + 3
					k++
				}
				if i == pos {
					return v
				}
			}
			return 0
		}
		a.R, a.R2 = val(0), val(1)
		w, _ := frontend.NewWitness(a, bnQ)
		if obs := SolveCapture(ccs, w, 1); obs.Class != "ok" {
			rep.Fail("c13:lookup-rejects-valid:mixed-table", obs.Class+" "+obs.Msg, desc)
		}
	}
	// ---- checks issued after the checker was created, from deferred callbacks
	for _, mode := range []string{"r1cs", "scs"} {
		for _, early := range []bool{false, true} {
			desc := c13Desc{Kind: "late-check", Mode: mode, Widths: []int{8}, Detail: fmt.Sprintf("early=%v", early)}
			var ccs constraint.ConstraintSystem
			var cerr error
			pmsg := catchPanic(func() { ccs, cerr = c13Compile(mode, &lateRcCircuit{width: 8, early: early}) })
			rep.Eval(fmt.Sprintf("late-check|%s|%v", mode, early), true)
			if pmsg != "" || cerr != nil {
				rep.Count("late-check:refused-at-compile-time")
				continue // refused: nothing is silently dropped
			}
			for _, x := range []int64{200, 255, 256, 300, 70000} {
				w, _ := frontend.NewWitness(&lateRcCircuit{X: x}, bnQ)
				obs := SolveCapture(ccs, w, 1)
				rep.Count("late-check:" + obs.Class)
				if x >= 256 && obs.Class == "ok" {
					desc.Values = []*big.Int{big.NewInt(x)}
					rep.Fail("c13:accepts-out-of-range:late-check", fmt.Sprintf("a range check issued from a deferred callback after rangecheck.New was accepted at compile time but is not enforced: %d passes an 8-bit check", x), desc)
				}
				if x < 256 && obs.Class != "ok" && obs.Class != "panic" {
					rep.Fail("c13:rejects-in-range:late-check", fmt.Sprintf("%d rejected by an 8-bit check: %s", x, obs.Msg), desc)
				}
			}
		}
	}
	hdr := "From Coq Require Import ZArith List Bool.\nFrom GnarkV Require Import Std.Emulated Std.RangeCheck Std.RangeCheckCases.\nImport ListNotations.\n"
	writeFile(o.Out, "cases_C13.v", hdr+
		fmt.Sprintf("Definition deccases : list (Z * Z * Z * list Z) := %s.\nDefinition mism_decompose := Eval vm_compute in dec_mismatches 0 deccases.\nPrint mism_decompose.\n", coqlistNL(decCases))+
		fmt.Sprintf("Definition widthcases : list (nat * list Z * Z) := %s.\nDefinition mism_basewidth := Eval vm_compute in width_mismatches 0 widthcases.\nPrint mism_basewidth.\n", coqlistNL(widthCases))+
		fmt.Sprintf("Definition qrycases : list (Z * list Z * list Z * list Z) := %s.\nDefinition mism_rangecheck_queries := Eval vm_compute in qry_mismatches 0 qrycases.\nPrint mism_rangecheck_queries.\n", coqlistNL(qryCases))+
		fmt.Sprintf("Definition acccases : list (Z * Z * list Z * Z) := %s.\nDefinition mism_range_relations := Eval vm_compute in acc_mismatches %s 0 acccases.\nPrint mism_range_relations.\n", coqlistNL(accCases), zlit(bnQ)))
	rep.CoqCases = len(decCases) + len(widthCases) + len(accCases) + len(qryCases)
	rep.Write(o.Out)
	return 0
}

// a lookup blueprint whose single-index instructions return entry + 1
type forgedLookup struct {
	*constraint.BlueprintLookupHint[constraint.U64]
}

type forgeSolver struct {
	constraint.Solver[constraint.U64]
}

func (f *forgeSolver) SetValue(v uint32, e constraint.U64) {
	f.Solver.SetValue(v, f.Add(e, f.One()))
}

func (b *forgedLookup) Solve(s constraint.Solver[constraint.U64], inst constraint.Instruction) error {
	if inst.Calldata[2] == 1 {
		return b.BlueprintLookupHint.Solve(&forgeSolver{s}, inst)
	}
	return b.BlueprintLookupHint.Solve(s, inst)
}
