package main

// C16: the EdDSA gadget (std/signature/eddsa) accepts exactly the signatures the native library
// (gnark-crypto eddsa, cofactored verification) accepts: honest signatures, altered message / R / S / key,
// and signatures whose R carries a low-order component (orders 2, 4, 8: accepted natively).

import (
	"fmt"
	"math/big"

	"github.com/consensys/gnark-crypto/ecc"
	"github.com/consensys/gnark-crypto/ecc/bn254/fr"
	tebn254 "github.com/consensys/gnark-crypto/ecc/bn254/twistededwards"
	eddsabn254 "github.com/consensys/gnark-crypto/ecc/bn254/twistededwards/eddsa"
	tedwards "github.com/consensys/gnark-crypto/ecc/twistededwards"
	"github.com/consensys/gnark-crypto/hash"
	"github.com/consensys/gnark/frontend"
	"github.com/consensys/gnark/std/algebra/native/twistededwards"
	"github.com/consensys/gnark/std/hash/mimc"
	"github.com/consensys/gnark/std/signature/eddsa"
	"github.com/consensys/gnark/test"
)

type eddsaCircuit struct {
	PublicKey eddsa.PublicKey   `gnark:",public"`
	Signature eddsa.Signature   `gnark:",public"`
	Message   frontend.Variable `gnark:",public"`
}

func (c *eddsaCircuit) Define(api frontend.API) error {
	curve, err := twistededwards.NewEdCurve(api, tedwards.BN254)
	if err != nil {
		return err
	}
	h, err := mimc.NewMiMC(api)
	if err != nil {
		return err
	}
	return eddsa.Verify(curve, c.Signature, c.Message, c.PublicKey, &h)
}

// edTorsion returns a point of exact order `order` (2, 4 or 8) on the BN254 companion curve
func edTorsion(order int) *tebn254.PointAffine {
	params := tebn254.GetEdwardsCurve()
	var one fr.Element
	one.SetOne()
	for i := uint64(2); i < 4000; i++ {
		var y, y2, num, den, x2, x fr.Element
		y.SetUint64(i)
		y2.Square(&y)
		num.Sub(&one, &y2)
		den.Mul(&params.D, &y2)
		den.Sub(&params.A, &den)
		if den.IsZero() {
			continue
		}
		x2.Div(&num, &den)
		if x.Sqrt(&x2) == nil {
			continue
		}
		P := tebn254.PointAffine{X: x, Y: y}
		if !P.IsOnCurve() {
			continue
		}
		var T, U tebn254.PointAffine
		T.ScalarMultiplication(&P, &params.Order)
		ord := 1
		U.Set(&T)
		for !(U.X.IsZero() && U.Y.IsOne()) && ord <= 8 {
			U.Double(&U)
			ord *= 2
		}
		if ord < order || ord > 8 {
			continue
		}
		for ord > order {
			T.Double(&T)
			ord /= 2
		}
		return &T
	}
	return nil
}

func c16EdDSA(rep *Report, rng *RNG) {
	params := tebn254.GetEdwardsCurve()
	hmsg := func(R, A *tebn254.PointAffine, msg []byte) *big.Int {
		hf := hash.MIMC_BN254.New()
		rx, ry, ax, ay := R.X.Bytes(), R.Y.Bytes(), A.X.Bytes(), A.Y.Bytes()
		for _, b := range [][]byte{rx[:], ry[:], ax[:], ay[:], msg} {
			hf.Write(b)
		}
		return new(big.Int).SetBytes(hf.Sum(nil))
	}
	type sig struct {
		A, R tebn254.PointAffine
		S    *big.Int
		msg  *big.Int
	}
	mk := func(T *tebn254.PointAffine) sig {
		a := new(big.Int).Add(rng.Big(&params.Order), big.NewInt(1))
		msgInt := rng.FieldElem(fr.Modulus())
		msg := make([]byte, 32)
		msgInt.FillBytes(msg)
		var s sig
		s.msg = msgInt
		s.A.ScalarMultiplication(&params.Base, a)
		r := new(big.Int).Add(rng.Big(&params.Order), big.NewInt(1))
		s.R.ScalarMultiplication(&params.Base, r)
		if T != nil {
			s.R.Add(&s.R, T)
		}
		h := hmsg(&s.R, &s.A, msg)
		s.S = new(big.Int).Mul(h, a)
		s.S.Add(s.S, r).Mod(s.S, &params.Order)
		return s
	}
	native := func(s sig) bool {
		var pub eddsabn254.PublicKey
		pub.A.Set(&s.A)
		rb := s.R.Bytes()
		sigBin := make([]byte, 64)
		copy(sigBin[:32], rb[:])
		s.S.FillBytes(sigBin[32:])
		msg := make([]byte, 32)
		s.msg.FillBytes(msg)
		ok, err := pub.Verify(sigBin, msg, hash.MIMC_BN254.New())
		return err == nil && ok
	}
	gadget := func(s sig) (bool, string) {
		var w eddsaCircuit
		w.Message = s.msg
		w.PublicKey.A.X, w.PublicKey.A.Y = s.A.X.BigInt(new(big.Int)), s.A.Y.BigInt(new(big.Int))
		w.Signature.R.X, w.Signature.R.Y = s.R.X.BigInt(new(big.Int)), s.R.Y.BigInt(new(big.Int))
		w.Signature.S = s.S
		var err error
		pm := catchPanic(func() { err = test.IsSolved(&eddsaCircuit{}, &w, ecc.BN254.ScalarField()) })
		if pm != "" {
			return false, "panic: " + pm
		}
		if err != nil {
			return false, shortErr(err)
		}
		return true, ""
	}
	type tc struct {
		name string
		s    sig
	}
	var cases []tc
	cases = append(cases, tc{"honest", mk(nil)})
	for _, ord := range []int{2, 4, 8} {
		if T := edTorsion(ord); T != nil {
			cases = append(cases, tc{fmt.Sprintf("R with a component of order %d", ord), mk(T)})
		} else {
			rep.Fail("harness:eddsa-torsion", fmt.Sprintf("no point of order %d found", ord), nil)
		}
	}
	base := mk(nil)
	alt := base
	alt.msg = new(big.Int).Add(base.msg, big.NewInt(1))
	cases = append(cases, tc{"message altered", alt})
	alt = base
	alt.S = new(big.Int).Add(base.S, big.NewInt(1))
	cases = append(cases, tc{"S + 1", alt})
	alt = base
	alt.R.Double(&base.R)
	cases = append(cases, tc{"R doubled", alt})
	alt = base
	alt.A.Double(&base.A)
	cases = append(cases, tc{"key doubled", alt})
	if T := edTorsion(8); T != nil {
		alt = base
		alt.A.Add(&base.A, T)
		cases = append(cases, tc{"key plus a point of order 8", alt})
	}
	for _, c := range cases {
		n := native(c.s)
		g, msg := gadget(c.s)
		rep.Eval("eddsa|bn254|"+c.name, true)
		rep.Count(fmt.Sprintf("eddsa:%s:native=%v", map[bool]string{true: "agree", false: "DIFFER"}[n == g], n))
		if n != g {
			rep.Fail("c16:differs-from-native:eddsa:"+c.name, fmt.Sprintf("EdDSA (BN254 companion curve, MiMC) %s: the native verifier says %v, the gadget says %v %s", c.name, n, g, msg),
				c16Desc{Curve: "edwards/BN254", Op: "eddsa.Verify", Class: c.name, Detail: msg})
		}
	}
}
